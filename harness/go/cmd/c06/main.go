//go:build verif

// Harness for C06: drives the real flows-mode Queue processor (processorqueue.NewProcessor with a
// real fixed-window quota from resources.NewResourceManagement) under a schedule fixed by the op
// lines, and reports what an outside observer sees: what happened to each Execute call, what the
// processor asked of the shared queue and of the quota (probes at the SharedStateI /
// ResourceManagementI interfaces handed to the processor), and the order of verdicts.
//
// Determinism: the context manager holds the repo's MockClock (NewRequest, the TTL watcher's
// arithmetic and the quota read it); the processing loop's `clock.After(100ms)` goes to a harness
// clock (loopClock) whose timer the harness fires itself, so a `tick` is: mock time +100 ms, wait
// (real time, the watcher sleeps on real time.After) until the watcher has rejected everything that
// is now past its TTL, then fire the loop and follow its pass.  The gate `queue.after-done` is kept
// closed so that verdicts are observed one at a time, in the order they are signalled.
// Forced schedules use the gates `queue.after-slot-check` (arrive-begin/arrive-end) and
// `queue.before-remove` (hold-remove/flush-remove) and `queue.before-repush` (tick-hold/tick-release).
// Every case runs in a child process: a panic on the processor's own goroutine (e.g. a second
// WaitGroup.Done, the former defect F06c) is then an observation, not the end of the run.
package main

import (
	"bufio"
	"bytes"
	"context"
	"fmt"
	"os"
	"os/exec"
	"path/filepath"
	"reflect"
	"runtime"
	"sort"
	"strconv"
	"strings"
	"sync"
	"time"
	"unsafe"

	"lunar/engine/actions"
	lunar_messages "lunar/engine/messages"
	"lunar/engine/metrics"
	"lunar/engine/routing"
	"lunar/engine/streams"
	stream_config "lunar/engine/streams/config"
	lunar_context "lunar/engine/streams/lunar-context"
	queue_processor "lunar/engine/streams/processors/queue"
	public_types "lunar/engine/streams/public-types"
	"lunar/engine/streams/resources"
	quota_resource "lunar/engine/streams/resources/quota"
	stream_types "lunar/engine/streams/types"
	"lunar/engine/utils/environment"
	"lunar/toolkit-core/clock"
	context_manager "lunar/toolkit-core/context-manager"
	"lunar/toolkit-core/verifhook"

	"github.com/negasus/haproxy-spoe-go/message"
	"github.com/negasus/haproxy-spoe-go/payload/kv"
	"github.com/negasus/haproxy-spoe-go/request"
	"github.com/rs/zerolog"

	"verif/harness/internal/lockfacts"
	"verif/harness/internal/prng"
	"verif/harness/internal/proto"
	"verif/harness/internal/sched"
)

const rule = "scenarios of arrivals (priorities), 100 ms ticks, TTL expiry, shutdown and forced interleavings " +
	"(gates after the slot test / before removal) against the real Queue processor with a fixed-window quota; " +
	"non-trivial = at least one request allowed and at least one refused (time-out, no slot or shutdown), or a crash; " +
	"level L1 (the real in-memory shared queue alone, random and exhaustive enqueue/remove/dequeue sequences): a removal and >= 2 dequeues; " +
	"distinct by (ops, answers)"

const (
	ptSlot   = "queue.after-slot-check"
	ptRemove = "queue.before-remove"
	ptDone   = "queue.after-done"
	ptRepush = "queue.before-repush"
	poll     = 100 * time.Microsecond
)

// ---------------------------------------------------------------- probes

type world struct {
	mu      sync.Mutex
	events  []string
	enq     map[string]int
	removed map[string]bool
	// publish hook: the first Enqueue of this item stops right after the item became visible in
	// the queue (reached is closed) until the harness lets the producer go on (cont is closed)
	hookID  string
	reached chan struct{}
	cont    chan struct{}
}

func (w *world) log(e string) {
	w.mu.Lock()
	w.events = append(w.events, e)
	w.mu.Unlock()
}

func num(sid string) string { return strings.TrimPrefix(sid, "r") }

type queueProbe struct {
	inner public_types.SharedQueueI
	w     *world
}

func (q *queueProbe) Enqueue(item string, prio float64) error {
	err := q.inner.Enqueue(item, prio)
	q.w.mu.Lock()
	q.w.enq[item]++
	first := q.w.enq[item] == 1
	if !first {
		q.w.events = append(q.w.events, "e:"+num(item))
	}
	var reached, cont chan struct{}
	if first && q.w.hookID == item {
		reached, cont = q.w.reached, q.w.cont
		q.w.hookID = ""
	}
	q.w.mu.Unlock()
	if reached != nil {
		close(reached)
		<-cont
	}
	return err
}

func (q *queueProbe) DequeueIfValueRelevant() string {
	v := q.inner.DequeueIfValueRelevant()
	if v == "" {
		q.w.log("d:none")
	} else {
		q.w.log("d:" + num(v))
	}
	return v
}

func (q *queueProbe) Remove(item string) {
	q.inner.Remove(item)
	q.w.mu.Lock()
	q.w.removed[item] = true
	q.w.mu.Unlock()
}

func (q *queueProbe) Size() int64 { return q.inner.Size() }

type stateProbe struct {
	public_types.SharedStateI[string]
	w *world
}

func (s *stateProbe) NewQueue(key string, ttl time.Duration) public_types.SharedQueueI {
	return &queueProbe{inner: s.SharedStateI.NewQueue(key, ttl), w: s.w}
}

type resProbe struct {
	inner public_types.ResourceManagementI
	w     *world
}

func (r *resProbe) GetQuota(qid, reqID string) (public_types.QuotaResourceI, error) {
	q, err := r.inner.GetQuota(qid, reqID)
	if err != nil {
		return nil, err
	}
	return &quotaProbe{inner: q, w: r.w}, nil
}
func (r *resProbe) OnRequestDrop(a public_types.APIStreamI)    { r.inner.OnRequestDrop(a) }
func (r *resProbe) OnResponseFinish(a public_types.APIStreamI) { r.inner.OnResponseFinish(a) }

type quotaProbe struct {
	inner public_types.QuotaResourceI
	w     *world
}

func (q *quotaProbe) Inc(a public_types.APIStreamI) error {
	err := q.inner.Inc(a)
	if err != nil {
		q.w.log("i:" + num(a.GetID()) + ":err")
	} else {
		q.w.log("i:" + num(a.GetID()))
	}
	return err
}

func (q *quotaProbe) Allowed(a public_types.APIStreamI) (bool, error) {
	ok, err := q.inner.Allowed(a)
	s := "a:" + num(a.GetID()) + ":0"
	if ok {
		s = "a:" + num(a.GetID()) + ":1"
	}
	if err != nil {
		s += ":err"
	}
	q.w.log(s)
	return ok, err
}

func (q *quotaProbe) Dec(a public_types.APIStreamI) error {
	err := q.inner.Dec(a)
	q.w.log("x:" + num(a.GetID()))
	return err
}
func (q *quotaProbe) ResetIn() time.Duration { return q.inner.ResetIn() }
func (q *quotaProbe) GetParentID() string    { return q.inner.GetParentID() }

// loopClock: the clock handed to the processor (metaData.Clock).  Now() is the mock clock; After()
// returns a timer channel the harness fires when mock time has reached it.
type loopClock struct {
	base    clock.Clock
	mu      sync.Mutex
	pending chan time.Time
	regs    int
	fired   int
}

func (c *loopClock) Now() time.Time                  { return c.base.Now() }
func (c *loopClock) Sleep(d time.Duration)           { <-c.After(d) }
func (c *loopClock) Since(t time.Time) time.Duration { return c.base.Now().Sub(t) }
func (c *loopClock) Until(t time.Time) time.Duration { return t.Sub(c.base.Now()) }
func (c *loopClock) After(time.Duration) <-chan time.Time {
	ch := make(chan time.Time, 1)
	c.mu.Lock()
	c.pending = ch
	c.regs++
	c.mu.Unlock()
	return ch
}

func (c *loopClock) Parked() bool {
	c.mu.Lock()
	defer c.mu.Unlock()
	return c.regs == c.fired+1
}

func (c *loopClock) Fire() {
	c.mu.Lock()
	ch := c.pending
	c.pending = nil
	c.fired++
	c.mu.Unlock()
	ch <- c.base.Now()
}

// ctl counts hook arrivals on top of the shared gate controller.
type ctl struct {
	*sched.Controller
}

// ---------------------------------------------------------------- one case

type reqRec struct {
	id       int
	sid      string
	arrival  time.Time // mock instant of the Execute call
	started  time.Time // wall clock
	done     chan struct{}
	verdict  string
	returned bool // harness has consumed the return
	waiting  bool // queued, no verdict yet
	inMap    bool // registered and removal not yet observed
	rmPend   bool // verdict delivered, removal not yet observed
	lat      time.Duration
	ttl      time.Duration // TTL of the processor it was sent to
	pi       int           // which processor (two-processor cases)
}

type sim struct {
	w       *world
	c       *sched.Controller
	lc      *loopClock
	mock    *clock.MockClock
	proc    stream_types.ProcessorI
	cancel  context.CancelFunc
	now     time.Time
	ttl     time.Duration
	real    bool
	hold    bool
	ready   bool
	drained bool
	held    bool // the loop stands at the gate before a re-push
	heldID  int
	scanned bool // while held: the watcher had real time for a scan since the clock last moved
	onGate  func()
	l1      public_types.SharedQueueI
	nudged  time.Duration // mode=engine: how far the clock has moved since the last tick
	engine  bool // the processor is reached through the real streams.Stream built from YAML
	stream  *streams.Stream
	handler routing.MessageHandler // the real SPOE message handler of routing over that stream
	tmpdir  string
	timers0 int // number of timers on the mock clock when the loop is parked
	duo     bool // two processors A (0) and B (1) on one shared state and one quota
	procs   [2]stream_types.ProcessorI
	lcs     [2]*loopClock
	ttls    [2]time.Duration
	reqs    []*reqRec
	gateQ   []*reqRec
	handled int
	maxLat  time.Duration
}

var (
	sharedBytes = lunar_context.NewMemoryState[[]byte]()
	caseSeq     int
)

func param(key string, v interface{}) stream_types.ProcessorParam {
	kvp := &public_types.KeyValue{Key: key, Value: v}
	return stream_types.ProcessorParam{Name: key, Value: kvp.GetParamValue()}
}

func kvI(w []string, k string) (int64, bool) {
	s, ok := proto.KV(w, k)
	if !ok {
		return 0, false
	}
	n, err := strconv.ParseInt(s, 10, 64)
	return n, err == nil
}

func (s *sim) setup(w []string) string {
	size, ok1 := kvI(w, "size")
	ttl, ok2 := kvI(w, "ttl")
	max, ok3 := kvI(w, "max")
	win, ok4 := kvI(w, "win")
	t0, ok5 := kvI(w, "t0")
	mode, ok6 := proto.KV(w, "mode")
	if !(ok1 && ok2 && ok3 && ok4 && ok5 && ok6) || ttl <= 0 || win <= 0 || (mode != "mock" && mode != "real" && mode != "engine") {
		return "bad-op"
	}
	// ancestors of the attached quota in the quota tree: parent first, root last
	type lim struct{ max, win int64 }
	var anc []lim
	if a, ok := proto.KV(w, "anc"); ok {
		for _, e := range strings.Split(a, ",") {
			f := strings.Split(e, ":")
			if len(f) != 2 {
				return "bad-op"
			}
			m, e1 := strconv.ParseInt(f[0], 10, 64)
			wn, e2 := strconv.ParseInt(f[1], 10, 64)
			if e1 != nil || e2 != nil || wn <= 0 {
				return "bad-op"
			}
			anc = append(anc, lim{m, wn})
		}
	}
	if mode == "engine" {
		if len(anc) > 0 {
			return "bad-op"
		}
		pre, _ := proto.KV(w, "pre")
		if pre != "" && pre != "0" && pre != "1" {
			return "bad-op"
		}
		qf, _ := proto.KV(w, "qf")
		kind, _ := proto.KV(w, "quota")
		if (qf != "" && qf != "0" && qf != "1") || (kind != "" && kind != "fixed" && kind != "concurrent") {
			return "bad-op"
		}
		return s.setupEngine(size, ttl, max, win, t0, pre == "1", qf == "1", kind == "concurrent")
	}
	if mode == "real" && max != 0 {
		return "bad-op"
	}
	os.Setenv("LUNAR_SPOE_PROCESSING_TIMEOUT_SEC", "30")
	s.real = mode == "real"
	s.ttl = time.Duration(ttl) * time.Second
	s.w = &world{enq: map[string]int{}, removed: map[string]bool{}}
	ctx, cancel := context.WithCancel(context.Background())
	s.cancel = cancel
	cm := context_manager.Get()
	cm.WithContext(ctx)
	s.c = sched.New()
	verifhook.Install(&ctl{s.c})
	var procClock public_types.ClockI
	var stateClock clock.Clock
	if s.real {
		cm.SetRealClock()
		procClock = cm.GetClock()
		stateClock = cm.GetClock()
	} else {
		cm.SetMockClock()
		s.mock = cm.GetMockClock()
		s.now = time.UnixMilli(t0)
		s.mock.Set(s.now)
		s.lc = &loopClock{base: s.mock}
		procClock = s.lc
		stateClock = s.mock
		s.c.Gate(ptDone, true)
	}
	caseSeq++
	quotaID := fmt.Sprintf("q%d", caseSeq)
	// the quota tree: the attached quota (quotaID) is the deepest limit; its ancestors follow, the last
	// one is the root quota (the only one with a filter); loaded by the real resource management
	fw := func(m, wn int64) *quota_resource.StrategyConfig {
		return &quota_resource.StrategyConfig{FixedWindow: &quota_resource.FixedWindowConfig{
			QuotaLimit: quota_resource.QuotaLimit{Max: m, Interval: wn, IntervalUnit: "second"}}}
	}
	chain := append([]lim{{max, win}}, anc...)
	names := make([]string, len(chain))
	for k := range chain {
		names[k] = quotaID
		if k > 0 {
			names[k] = fmt.Sprintf("%sp%d", quotaID, k)
		}
	}
	last := len(chain) - 1
	data := &quota_resource.QuotaResourceData{Quotas: []*quota_resource.QuotaConfig{{
		ID: names[last], Filter: &stream_config.Filter{Name: names[last], URL: "api.example.com/*"},
		Strategy: fw(chain[last].max, chain[last].win)}}}
	for k := last - 1; k >= 0; k-- {
		data.InternalLimits = append(data.InternalLimits, &quota_resource.ChildQuotaConfig{
			QuotaConfig: quota_resource.QuotaConfig{ID: names[k], Strategy: fw(chain[k].max, chain[k].win)},
			ParentID:    names[k+1]})
	}
	rm, err := resources.NewResourceManagement()
	if err != nil {
		return "err:resources"
	}
	rm, err = rm.WithQuotaData([]*quota_resource.QuotaResourceData{data})
	if err != nil {
		return "err:quota:" + proto.Enc(err.Error())
	}
	groups := prioGroups()
	md := &stream_types.ProcessorMetaData{
		Name:         "queue" + quotaID,
		SharedMemory: &stateProbe{SharedStateI: lunar_context.NewMemoryState[string]().WithClock(stateClock), w: s.w},
		Clock:        procClock,
		Parameters: map[string]stream_types.ProcessorParam{
			"quota_id":                 param("quota_id", quotaID),
			"queue_size":               param("queue_size", int(size)),
			"redis_queue_size":         param("redis_queue_size", -1),
			"ttl_seconds":              param("ttl_seconds", int(ttl)),
			"priority_group_by_header": param("priority_group_by_header", "x-prio"),
			"priority_groups":          param("priority_groups", groups),
		},
		Resources: &resProbe{inner: rm, w: s.w},
	}
	p, err := queue_processor.NewProcessor(md)
	if err != nil {
		return "err:processor:" + proto.Enc(err.Error())
	}
	s.proc = p
	if !s.real && !s.until(func() bool { return s.lc.Parked() }, 5*time.Second) {
		return "stuck:loop-start"
	}
	s.ready = true
	return "ok"
}

// setup2: two Queue processors A and B built over ONE shared memory state and the SAME quota id (two
// flows queuing on one quota); each has its own loop timer.
func (s *sim) setup2(w []string) string {
	var size, ttl [2]int64
	var ok [7]bool
	size[0], ok[0] = kvI(w, "sizea")
	ttl[0], ok[1] = kvI(w, "ttla")
	size[1], ok[2] = kvI(w, "sizeb")
	ttl[1], ok[3] = kvI(w, "ttlb")
	max, ok4 := kvI(w, "max")
	win, ok5 := kvI(w, "win")
	t0, ok6 := kvI(w, "t0")
	ok[4], ok[5], ok[6] = ok4, ok5, ok6
	for _, o := range ok {
		if !o {
			return "bad-op"
		}
	}
	if ttl[0] <= 0 || ttl[1] <= 0 || win <= 0 {
		return "bad-op"
	}
	os.Setenv("LUNAR_SPOE_PROCESSING_TIMEOUT_SEC", "30")
	s.duo = true
	s.w = &world{enq: map[string]int{}, removed: map[string]bool{}}
	ctx, cancel := context.WithCancel(context.Background())
	s.cancel = cancel
	cm := context_manager.Get()
	cm.WithContext(ctx)
	s.c = sched.New()
	verifhook.Install(&ctl{s.c})
	cm.SetMockClock()
	s.mock = cm.GetMockClock()
	s.now = time.UnixMilli(t0)
	s.mock.Set(s.now)
	s.c.Gate(ptDone, true)
	caseSeq++
	quotaID := fmt.Sprintf("q%d", caseSeq)
	// the quota tree: the attached quota (quotaID) is the deepest limit; its ancestors follow, the last
	// one is the root quota (the only one with a filter); loaded by the real resource management
	fw := func(m, wn int64) *quota_resource.StrategyConfig {
		return &quota_resource.StrategyConfig{FixedWindow: &quota_resource.FixedWindowConfig{
			QuotaLimit: quota_resource.QuotaLimit{Max: m, Interval: wn, IntervalUnit: "second"}}}
	}
	type lim struct{ max, win int64 }
	var anc []lim
	chain := append([]lim{{max, win}}, anc...)
	names := make([]string, len(chain))
	for k := range chain {
		names[k] = quotaID
		if k > 0 {
			names[k] = fmt.Sprintf("%sp%d", quotaID, k)
		}
	}
	last := len(chain) - 1
	data := &quota_resource.QuotaResourceData{Quotas: []*quota_resource.QuotaConfig{{
		ID: names[last], Filter: &stream_config.Filter{Name: names[last], URL: "api.example.com/*"},
		Strategy: fw(chain[last].max, chain[last].win)}}}
	for k := last - 1; k >= 0; k-- {
		data.InternalLimits = append(data.InternalLimits, &quota_resource.ChildQuotaConfig{
			QuotaConfig: quota_resource.QuotaConfig{ID: names[k], Strategy: fw(chain[k].max, chain[k].win)},
			ParentID:    names[k+1]})
	}
	rm, err := resources.NewResourceManagement()
	if err != nil {
		return "err:resources"
	}
	rm, err = rm.WithQuotaData([]*quota_resource.QuotaResourceData{data})
	if err != nil {
		return "err:quota:" + proto.Enc(err.Error())
	}
	groups := prioGroups()
	shared := &stateProbe{SharedStateI: lunar_context.NewMemoryState[string]().WithClock(s.mock), w: s.w}
	res := &resProbe{inner: rm, w: s.w}
	for pi := 0; pi < 2; pi++ {
		s.ttls[pi] = time.Duration(ttl[pi]) * time.Second
		s.lcs[pi] = &loopClock{base: s.mock}
		md := &stream_types.ProcessorMetaData{
			Name:         fmt.Sprintf("queue%c%s", 'A'+pi, quotaID),
			SharedMemory: shared,
			Clock:        s.lcs[pi],
			Parameters: map[string]stream_types.ProcessorParam{
				"quota_id":                 param("quota_id", quotaID),
				"queue_size":               param("queue_size", int(size[pi])),
				"redis_queue_size":         param("redis_queue_size", -1),
				"ttl_seconds":              param("ttl_seconds", int(ttl[pi])),
				"priority_group_by_header": param("priority_group_by_header", "x-prio"),
				"priority_groups":          param("priority_groups", groups),
			},
			Resources: res,
		}
		p, err := queue_processor.NewProcessor(md)
		if err != nil {
			return "err:processor:" + proto.Enc(err.Error())
		}
		s.procs[pi] = p
		lc := s.lcs[pi]
		if !s.until(func() bool { return lc.Parked() }, 5*time.Second) {
			return "stuck:loop-start"
		}
	}
	s.ttl = s.ttls[0]
	s.ready = true
	return "ok"
}

func (s *sim) arrive2(w []string) string {
	id, ok := kvI(w, "id")
	prio, ok2 := s.parsePrio(w)
	pr, ok3 := proto.KV(w, "proc")
	if !ok || !ok2 || !ok3 || int(id) != len(s.reqs) || (pr != "a" && pr != "b") {
		return "bad-op"
	}
	pi := 0
	if pr == "b" {
		pi = 1
	}
	r := s.spawnOn(int(id), prio, pi)
	if !s.until(func() bool { return isDone(r) || s.enqSeen(r) }, 5*time.Second) {
		return "stuck:arrive"
	}
	if isDone(r) {
		r.returned = true
		if r.verdict == "blocked" {
			return "blocked"
		}
		return "unexpected:" + r.verdict
	}
	r.waiting, r.inMap = true, true
	return "queued"
}

// tick2: clock +100 ms; both TTL watchers; then one pass of each loop in the given order.
func (s *sim) tick2(w []string) string {
	ord, ok := proto.KV(w, "order")
	if !ok || (ord != "ab" && ord != "ba") || len(w) != 2 {
		return "bad-op"
	}
	s.now = s.now.Add(100 * time.Millisecond)
	s.mock.Set(s.now)
	to, bad := s.watcherPhase()
	logs := [2]string{"-", "-"}
	order := []int{0, 1}
	if ord == "ba" {
		order = []int{1, 0}
	}
	for _, pi := range order {
		s.w.mu.Lock()
		s.w.events = nil
		s.w.mu.Unlock()
		lc := s.lcs[pi]
		lc.Fire()
		okp := s.pump(func() bool { return lc.Parked() }, 5*time.Second, s.onAllowed)
		s.w.mu.Lock()
		evs := append([]string(nil), s.w.events...)
		s.w.mu.Unlock()
		if !okp {
			evs = append(evs, "stuck")
		}
		if !s.awaitRemovals() {
			evs = append(evs, "stuck-removal")
		}
		logs[pi] = joinOr(evs)
	}
	return "to=" + sortedIDs(to, bad) + " a=" + logs[0] + " b=" + logs[1]
}

// ---- mode=engine: the Queue processor of the registry inside a real streams.Stream built from YAML

const engineFlowYAML = `name: QueueFlow
filter:
  url: api.example.com/*
processors:%[5]s
  TheQueue:
    processor: Queue
    parameters:
      - key: quota_id
        value: %[1]s
      - key: ttl_seconds
        value: %[2]d
      - key: queue_size
        value: %[3]d
      - key: priority_group_by_header
        value: x-prio
      - key: priority_groups
        value:
%[4]s
  TooMany:
    processor: GenerateResponse
    parameters:
      - key: status
        value: 429
      - key: body
        value: Too many requests
      - key: Content-Type
        value: text/plain
flow:
  request:
%[6]s
    - from:
        processor:
          name: TheQueue
          condition: blocked
      to:
        processor:
          name: TooMany
    - from:
        processor:
          name: TheQueue
          condition: allowed
      to:
        stream:
          name: globalStream
          at: end
  response:
    - from:
        processor:
          name: TooMany
      to:
        stream:
          name: globalStream
          at: end
    - from:
        stream:
          name: globalStream
          at: start
      to:
        stream:
          name: globalStream
          at: end
`

// timerDue tells whether the repo's MockClock has a pending timer due exactly at instant `at`
// (unexported fields, read only): the queue's loop is parked exactly when its `clock.After(100ms)`
// timer - due 100 ms after the tick at which it was registered - is pending.  (Other users of the mock
// clock, e.g. a concurrent quota, register timers of their own; they are due at other instants.)
func timerDue(m *clock.MockClock, at time.Time) bool {
	mu := (*sync.RWMutex)(unsafe.Pointer(reflect.ValueOf(m).Elem().FieldByName("mu").UnsafeAddr()))
	mu.RLock()
	defer mu.RUnlock()
	ts := reflect.ValueOf(m).Elem().FieldByName("timers")
	for i := 0; i < ts.Len(); i++ {
		t := ts.Index(i)
		for t.Kind() == reflect.Interface || t.Kind() == reflect.Ptr {
			t = t.Elem()
		}
		f := t.FieldByName("next")
		if !f.IsValid() || !f.CanAddr() {
			continue
		}
		if (*(*time.Time)(unsafe.Pointer(f.UnsafeAddr()))).Equal(at) {
			return true
		}
	}
	return false
}

// waitersInQueue counts goroutines parked in (*Request).Wait, i.e. Execute calls waiting in a queue.
func waitersInQueue() int {
	buf := make([]byte, 1<<20)
	n := runtime.Stack(buf, true)
	return strings.Count(string(buf[:n]), "processors/queue.(*Request).Wait")
}

const engineStartDirect = `    - from:
        stream:
          name: globalStream
          at: start
      to:
        processor:
          name: TheQueue`

// a request-rewriting processor (it always answers with a modify-request action) before the Queue
const engineStartViaTransform = `    - from:
        stream:
          name: globalStream
          at: start
      to:
        processor:
          name: Tag
    - from:
        processor:
          name: Tag
      to:
        processor:
          name: TheQueue`

const engineTransformProc = `
  Tag:
    processor: TransformAPICall
    parameters:
      - key: set
        value:
          "$.request.headers['x-c06-tag']": "tagged"`

func (s *sim) setupEngine(size, ttl, max, win, t0 int64, pre, qf, conc bool) string {
	os.Setenv("LUNAR_SPOE_PROCESSING_TIMEOUT_SEC", "30")
	dir, err := os.MkdirTemp("", "c06-engine-")
	if err != nil {
		return "err:tmp"
	}
	s.tmpdir = dir
	for _, d := range []string{"quotas", "flows", "path_params"} {
		if err := os.MkdirAll(filepath.Join(dir, d), 0o755); err != nil {
			return "err:tmp"
		}
	}
	// qf=0: the quota's own filter does not match the traffic, only the Queue processor knows the quota.
	// qf=1: it matches (the production wiring): the quota's system flows exist - a QuotaProcessorInc at
	// the start of the request path, whose logic Stream.Initialize switches off for a quota a Queue names,
	// and for a concurrent quota a QuotaProcessorDec on the response path, which also runs for the early
	// response of a request the queue rejected
	qurl := "quota-only.example.com/*"
	if qf {
		qurl = "api.example.com/*"
	}
	strategy := fmt.Sprintf("      fixed_window:\n        max: %d\n        interval: %d\n        interval_unit: second\n", max, win)
	if conc {
		strategy = fmt.Sprintf("      concurrent:\n        max_request_count: %d\n", max)
	}
	quotas := fmt.Sprintf("quotas:\n  - id: EQ\n    filter:\n      url: %s\n    strategy:\n%s", qurl, strategy)
	var groups strings.Builder
	for p := 0; p <= 20; p++ {
		fmt.Fprintf(&groups, "          g%d: %d\n", p, p)
	}
	for _, p := range bigPrios {
		fmt.Fprintf(&groups, "          g%d: %d\n", p, p)
	}
	procs, start := "", engineStartDirect
	if pre {
		procs, start = engineTransformProc, engineStartViaTransform
	}
	flow := fmt.Sprintf(engineFlowYAML, "EQ", ttl, size, strings.TrimRight(groups.String(), "\n"), procs, start)
	if os.WriteFile(filepath.Join(dir, "quotas", "quotas.yaml"), []byte(quotas), 0o644) != nil ||
		os.WriteFile(filepath.Join(dir, "flows", "flow.yaml"), []byte(flow), 0o644) != nil {
		return "err:tmp"
	}
	os.Setenv("LUNAR_PROXY_QUOTAS_DIRECTORY", filepath.Join(dir, "quotas"))
	os.Setenv("LUNAR_FLOWS_PATH_PARAM_DIR", filepath.Join(dir, "path_params"))
	os.Setenv("LUNAR_FLOWS_PATH_PARAM_CONFIG", filepath.Join(dir, "path_params_generated.yaml"))
	environment.SetStreamsFlowsDirectory(filepath.Join(dir, "flows"))
	repo := os.Getenv("VERIF_REPO")
	if repo == "" {
		repo = "/repo"
	}
	environment.SetProcessorsDirectory(filepath.Join(repo, "proxy/src/services/lunar-engine/streams/processors/registry"))
	s.engine = true
	s.ttl = time.Duration(ttl) * time.Second
	s.w = &world{enq: map[string]int{}, removed: map[string]bool{}}
	ctx, cancel := context.WithCancel(context.Background())
	s.cancel = cancel
	cm := context_manager.Get()
	cm.WithContext(ctx)
	s.c = sched.New()
	verifhook.Install(&ctl{s.c})
	cm.SetMockClock()
	s.mock = cm.GetMockClock()
	s.now = time.UnixMilli(t0)
	s.mock.Set(s.now)
	s.c.Gate(ptDone, true)
	st, err := streams.NewStream()
	if err != nil {
		return "err:stream:" + proto.Enc(err.Error())
	}
	if err := st.Initialize(); err != nil {
		return "err:initialize:" + proto.Enc(err.Error())
	}
	s.stream = st
	// the verdict is observed where it leaves the engine: the SPOE actions the real message handler of
	// routing answers HAProxy with (return_early_response = true: the request is NOT forwarded)
	mm, _ := metrics.NewMetricManager()
	s.handler = routing.VerifHandlerForStream(st, mm)
	if !s.until(func() bool { return timerDue(s.mock, s.now.Add(100*time.Millisecond)) }, 5*time.Second) {
		return "stuck:loop-start"
	}
	s.ready = true
	return "ok"
}

func (s *sim) spawnEngine(id int, prio string) *reqRec {
	r := &reqRec{id: id, sid: fmt.Sprintf("r%d", id), done: make(chan struct{}), started: time.Now(), ttl: s.ttl,
		arrival: s.now}
	hdr := map[string]string{}
	if prio != "none" {
		hdr["x-prio"] = "g" + prio
	}
	var hb strings.Builder
	for k, v := range hdr {
		hb.WriteString(k + ": " + v + "\r\n")
	}
	keyValues := kv.NewKV()
	keyValues.Add("id", r.sid)
	keyValues.Add("sequence_id", r.sid)
	keyValues.Add("method", "GET")
	keyValues.Add("scheme", "https")
	keyValues.Add("url", "api.example.com/x")
	keyValues.Add("path", "/x")
	keyValues.Add("query", "")
	keyValues.Add("headers", hb.String())
	keyValues.Add("body", []byte(""))
	sreq := &request.Request{Messages: &message.Messages{{Name: "lunar-on-request", KV: keyValues}}}
	s.reqs = append(s.reqs, r)
	go func() {
		defer close(r.done)
		defer func() {
			if p := recover(); p != nil {
				r.verdict = "panic:" + proto.Enc(fmt.Sprint(p))
			}
		}()
		s.handler(sreq)
		r.lat = time.Since(r.started)
		r.verdict = "allowed"
		for _, a := range sreq.Actions {
			if a.Name == actions.ReturnEarlyResponseActionName {
				if flag, ok := a.Value.(bool); ok && flag {
					r.verdict = "blocked"
				}
			}
		}
	}()
	return r
}

// arriveEngine: one lunar-on-request message through the real SPOE handler (which runs ExecuteFlow on the
// Queue flow and folds the flow's actions into the answer for HAProxy).  `queued` = the call is parked in the
// processor's queue; `blocked` = it returned at once with the early response; `pending` = it is in
// flight but has neither returned nor reached the queue within 1.5 s.
func (s *sim) arriveEngine(w []string) string {
	id, ok := kvI(w, "id")
	prio, ok2 := s.parsePrio(w)
	if !ok || !ok2 || int(id) != len(s.reqs) {
		return "bad-op"
	}
	w0 := waitersInQueue()
	r := s.spawnEngine(int(id), prio)
	s.until(func() bool { return isDone(r) || waitersInQueue() > w0 }, 1500*time.Millisecond)
	switch {
	case isDone(r):
		r.returned = true
		if r.verdict == "blocked" {
			return "blocked"
		}
		return "unexpected:" + r.verdict
	case waitersInQueue() > w0:
		r.waiting, r.inMap = true, true
		return "queued"
	default:
		r.waiting = true
		return "pending"
	}
}

func (s *sim) tickEngine() string {
	var adm, to []*reqRec
	var bad []string
	on := func(r *reqRec) {
		switch r.verdict {
		case "allowed":
			adm = append(adm, r)
		case "blocked":
			to = append(to, r)
		default:
			bad = append(bad, fmt.Sprintf("!%s:%d", r.verdict, r.id))
		}
	}
	// watcher first, as in the other modes: the clock stops 1 ns short of the loop's timer (whatever is
	// past its TTL at the tick instant is past it there too: arrivals and expiry instants are tick instants);
	// then the last nanosecond fires the loop's timer on the repo's MockClock
	next := s.now.Add(100*time.Millisecond - s.nudged)
	s.nudged = 0
	s.mock.Set(next.Add(-time.Nanosecond))
	expired := func() int {
		n := 0
		for _, r := range s.reqs {
			if r.waiting && r.inMap && next.After(r.arrival.Add(r.ttl)) {
				n++
			}
		}
		return n
	}
	if expired() > 0 && !s.pump(func() bool { return expired() == 0 }, s.ttl+3*time.Second, on) {
		bad = append(bad, "stuck")
	}
	s.now = next
	s.mock.Set(s.now)
	if !s.pump(func() bool { return timerDue(s.mock, next.Add(100*time.Millisecond)) }, 5*time.Second, on) {
		bad = append(bad, "stuck")
	}
	ids := func(rs []*reqRec) string {
		var out []string
		for _, r := range rs {
			out = append(out, strconv.Itoa(r.id))
		}
		return joinOr(out)
	}
	return "to=" + sortedIDs(to, bad) + " adm=" + ids(adm)
}

func (s *sim) until(cond func() bool, d time.Duration) bool {
	deadline := time.Now().Add(d)
	for !cond() {
		if time.Now().After(deadline) {
			return false
		}
		time.Sleep(poll)
	}
	return true
}

func isDone(r *reqRec) bool {
	select {
	case <-r.done:
		return true
	default:
		return false
	}
}

func (s *sim) spawn(id int, prio string) *reqRec { return s.spawnOn(id, prio, 0) }

func (s *sim) spawnOn(id int, prio string, pi int) *reqRec {
	r := &reqRec{id: id, sid: fmt.Sprintf("r%d", id), done: make(chan struct{}), started: time.Now(), ttl: s.ttl, pi: pi}
	proc := s.proc
	if s.duo {
		proc, r.ttl = s.procs[pi], s.ttls[pi]
	}
	if !s.real {
		r.arrival = s.now
	}
	hdr := map[string]string{}
	if prio != "none" {
		hdr["x-prio"] = "g" + prio
	}
	api := stream_types.NewRequestAPIStream(lunar_messages.OnRequest{
		ID: r.sid, SequenceID: r.sid, Method: "GET", URL: "api.example.com/x", Headers: hdr}, sharedBytes)
	s.reqs = append(s.reqs, r)
	go func() {
		defer close(r.done)
		defer func() {
			if p := recover(); p != nil {
				r.verdict = "panic:" + proto.Enc(fmt.Sprint(p))
			}
		}()
		io, err := proc.Execute("flow", api)
		r.lat = time.Since(r.started)
		if err != nil {
			r.verdict = "err"
		} else {
			r.verdict = io.Name
		}
	}()
	return r
}

func (s *sim) enqSeen(r *reqRec) bool {
	s.w.mu.Lock()
	defer s.w.mu.Unlock()
	return s.w.enq[r.sid] >= 1
}

func (s *sim) parsePrio(w []string) (string, bool) {
	p, ok := proto.KV(w, "prio")
	if !ok {
		return "", false
	}
	if p == "none" {
		return p, true
	}
	n, err := strconv.Atoi(p)
	return p, err == nil && prioAllowed(n)
}

func (s *sim) arrive(w []string, gated bool) string {
	id, ok := kvI(w, "id")
	prio, ok2 := s.parsePrio(w)
	if !ok || !ok2 || int(id) != len(s.reqs) || (gated && s.real) {
		return "bad-op"
	}
	if gated {
		s.c.Gate(ptSlot, true)
		defer s.c.Gate(ptSlot, false)
	}
	r := s.spawn(int(id), prio)
	want := len(s.gateQ) + 1
	ok = s.until(func() bool {
		return isDone(r) || (gated && s.c.Waiting(ptSlot) >= want) || (!gated && s.enqSeen(r))
	}, 5*time.Second)
	switch {
	case !ok:
		return "stuck:arrive"
	case isDone(r):
		r.returned = true
		if r.verdict == "blocked" {
			return "blocked"
		}
		return "unexpected:" + r.verdict
	case gated:
		s.gateQ = append(s.gateQ, r)
		return "at-gate"
	default:
		r.waiting, r.inMap = true, true
		return "queued"
	}
}

func (s *sim) arriveEnd(w []string) string {
	id, ok := kvI(w, "id")
	if !ok || len(s.gateQ) == 0 || s.gateQ[0].id != int(id) {
		return "bad-op"
	}
	r := s.gateQ[0]
	s.gateQ = s.gateQ[1:]
	s.c.Release(ptSlot)
	if !s.until(func() bool { return s.enqSeen(r) || isDone(r) }, 5*time.Second) {
		return "stuck:arrive-end"
	}
	if isDone(r) {
		r.returned = true
		return "unexpected:" + r.verdict
	}
	r.waiting, r.inMap = true, true
	return "queued"
}

// pump follows the processor until cond holds: every arrival at the closed gate `queue.after-done`
// is one delivered verdict; the harness waits for exactly one Execute call to return, reports it
// and reopens the gate for that one goroutine.
func (s *sim) pump(cond func() bool, d time.Duration, onVerdict func(r *reqRec)) bool {
	deadline := time.Now().Add(d)
	for {
		if s.c.Waiting(ptDone) > 0 {
			if s.onGate != nil {
				s.onGate()
			}
			var got *reqRec
			ok := s.until(func() bool {
				for _, r := range s.reqs {
					if r.waiting && isDone(r) {
						got = r
						return true
					}
				}
				return false
			}, 3*time.Second)
			if !ok {
				return false
			}
			got.waiting, got.returned, got.rmPend = false, true, true
			s.handled++
			onVerdict(got)
			s.c.Release(ptDone)
			continue
		}
		if cond() {
			return true
		}
		if time.Now().After(deadline) {
			return false
		}
		time.Sleep(poll)
	}
}

func (s *sim) awaitRemovals() bool {
	if s.hold || s.engine {
		return true
	}
	return s.until(func() bool {
		s.w.mu.Lock()
		defer s.w.mu.Unlock()
		all := true
		for _, r := range s.reqs {
			if r.rmPend {
				if s.w.removed[r.sid] {
					r.rmPend, r.inMap = false, false
				} else {
					all = false
				}
			}
		}
		return all
	}, 5*time.Second)
}

func joinOr(xs []string) string {
	if len(xs) == 0 {
		return "-"
	}
	return strings.Join(xs, ",")
}

func sortedIDs(rs []*reqRec, bad []string) string {
	ids := make([]int, 0, len(rs))
	for _, r := range rs {
		ids = append(ids, r.id)
	}
	sort.Ints(ids)
	out := make([]string, 0, len(ids))
	for _, i := range ids {
		out = append(out, strconv.Itoa(i))
	}
	return joinOr(append(out, bad...))
}

// watcherPhase: everything past its TTL on the mock clock must be rejected (real-time wait).
func (s *sim) watcherPhase() ([]*reqRec, []string) {
	expired := 0
	for _, r := range s.reqs {
		if r.waiting && s.now.After(r.arrival.Add(r.ttl)) {
			expired++
		}
	}
	var to []*reqRec
	var bad []string
	if expired > 0 {
		h0 := s.handled
		if !s.pump(func() bool { return s.handled-h0 >= expired }, s.ttl+3*time.Second, func(r *reqRec) {
			if r.verdict == "blocked" {
				to = append(to, r)
			} else {
				bad = append(bad, fmt.Sprintf("!%s:%d", r.verdict, r.id))
			}
		}) {
			bad = append(bad, "stuck")
		}
		if !s.awaitRemovals() {
			bad = append(bad, "stuck-removal")
		}
	}
	return to, bad
}

// arriveTick: a tick (clock +100 ms, watcher first) whose loop pass runs while the arriving request
// is inside queue.Enqueue, right after its id became visible in the shared queue and before Enqueue
// returns to the producer.  (If the arrival is refused for lack of a slot the pass runs after it.)
func (s *sim) arriveTick(w []string) string {
	id, ok := kvI(w, "id")
	prio, ok2 := s.parsePrio(w)
	if !ok || !ok2 || int(id) != len(s.reqs) || s.real {
		return "bad-op"
	}
	s.now = s.now.Add(100 * time.Millisecond)
	s.mock.Set(s.now)
	to, bad := s.watcherPhase()
	sid := fmt.Sprintf("r%d", id)
	reached, cont := make(chan struct{}), make(chan struct{})
	s.w.mu.Lock()
	s.w.hookID, s.w.reached, s.w.cont = sid, reached, cont
	s.w.events = nil
	s.w.mu.Unlock()
	released := false
	release := func() {
		if !released {
			released = true
			close(cont)
		}
	}
	defer release()
	r := s.spawn(int(id), prio)
	atHook := func() bool {
		select {
		case <-reached:
			return true
		default:
			return false
		}
	}
	if !s.until(func() bool { return isDone(r) || atHook() }, 5*time.Second) {
		return "stuck:arrive-tick"
	}
	ans := "queued"
	if !atHook() {
		// no slot: the producer returned without publishing
		r.returned = true
		ans = "blocked"
		if r.verdict != "blocked" {
			ans = "unexpected:" + r.verdict
		}
		s.w.mu.Lock()
		s.w.hookID = ""
		s.w.mu.Unlock()
	} else {
		r.waiting, r.inMap = true, true
	}
	// the loop's pass; when it signals the request that is still inside Enqueue, the producer is
	// let go first so that its Execute call can return
	s.onGate = func() {
		s.w.mu.Lock()
		last := ""
		for i := len(s.w.events) - 1; i >= 0; i-- {
			if strings.HasPrefix(s.w.events[i], "a:") {
				last = s.w.events[i]
				break
			}
		}
		s.w.mu.Unlock()
		if last == "a:"+num(sid)+":1" {
			release()
		}
	}
	s.lc.Fire()
	okp := s.pump(func() bool { return s.lc.Parked() }, 5*time.Second, s.onAllowed)
	s.onGate = nil
	release()
	s.w.mu.Lock()
	evs := append([]string(nil), s.w.events...)
	s.w.mu.Unlock()
	if !okp {
		evs = append(evs, "stuck")
	}
	if ans == "queued" && !isDone(r) && !s.until(func() bool { return s.enqSeen(r) }, 5*time.Second) {
		evs = append(evs, "stuck-enqueue")
	}
	if !s.awaitRemovals() {
		evs = append(evs, "stuck-removal")
	}
	return ans + " to=" + sortedIDs(to, bad) + " log=" + joinOr(evs)
}

func (s *sim) tick(holdAtRepush bool) string {
	s.now = s.now.Add(100 * time.Millisecond)
	s.mock.Set(s.now)
	to, bad := s.watcherPhase()
	// loop phase
	s.w.mu.Lock()
	s.w.events = nil
	s.w.mu.Unlock()
	if holdAtRepush {
		s.c.Gate(ptRepush, true)
		s.scanned = false
	}
	s.lc.Fire()
	okp := s.pump(func() bool { return s.lc.Parked() || s.c.Waiting(ptRepush) > 0 }, 5*time.Second, s.onAllowed)
	s.c.Gate(ptRepush, false)
	s.held = s.c.Waiting(ptRepush) > 0
	s.w.mu.Lock()
	evs := append([]string(nil), s.w.events...)
	s.w.mu.Unlock()
	if !okp {
		evs = append(evs, "stuck")
	}
	if !s.awaitRemovals() {
		evs = append(evs, "stuck-removal")
	}
	ans := "to=" + sortedIDs(to, bad) + " log=" + joinOr(evs)
	if holdAtRepush {
		h := "-"
		if s.held {
			// the request the loop is about to push again: the one the quota just refused
			for i := len(evs) - 1; i >= 0; i-- {
				if strings.HasPrefix(evs[i], "x:") {
					h = evs[i][2:]
					s.heldID, _ = strconv.Atoi(h)
					break
				}
			}
		}
		ans += " held=" + h
	}
	return ans
}

func (s *sim) onAllowed(r *reqRec) {
	if r.verdict == "allowed" {
		s.w.log("v:" + strconv.Itoa(r.id))
	} else {
		s.w.log("v!" + r.verdict + ":" + strconv.Itoa(r.id))
	}
}

func (s *sim) tickRelease() string {
	s.w.mu.Lock()
	s.w.events = nil
	s.w.mu.Unlock()
	s.held = false
	// wall-clock TEST: if the held request is past its TTL and the watcher has had real time for a scan
	// since (so it has seen the entry expired and could not take it), the watcher must come back for it
	// at once when the attempt is over: verdict within 0.7 TTL of wall clock (TTL >= 1 s)
	var heldReq *reqRec
	for _, r := range s.reqs {
		if r.id == s.heldID && r.waiting && s.now.After(r.arrival.Add(r.ttl)) {
			heldReq = r
		}
	}
	measure := s.scanned && heldReq != nil
	s.scanned = false
	prompt := "-"
	t0 := time.Now()
	s.c.Release(ptRepush)
	// the loop finishes its pass (re-push, StopProcessing); then everything that is past its TTL by now
	// - in particular the request the loop was holding - must be rejected by the watcher (real-time wait)
	var to []*reqRec
	var bad []string
	on := func(r *reqRec) {
		switch r.verdict {
		case "allowed":
			s.w.log("v:" + strconv.Itoa(r.id))
		case "blocked":
			to = append(to, r)
			if measure && r == heldReq {
				prompt = "0"
				if time.Since(t0) <= s.ttl*7/10 { // the defect costs a whole further TTL; 0.7 TTL leaves room for a loaded machine
					prompt = "1"
				}
			}
		default:
			bad = append(bad, fmt.Sprintf("!%s:%d", r.verdict, r.id))
		}
	}
	okp := s.pump(func() bool { return s.lc.Parked() }, 5*time.Second, on)
	expired := func() int {
		n := 0
		for _, r := range s.reqs {
			if r.waiting && s.now.After(r.arrival.Add(r.ttl)) {
				n++
			}
		}
		return n
	}
	if okp && expired() > 0 {
		if !s.pump(func() bool { return expired() == 0 }, s.ttl+3*time.Second, on) {
			bad = append(bad, "stuck")
		}
	}
	s.w.mu.Lock()
	evs := append([]string(nil), s.w.events...)
	s.w.mu.Unlock()
	if !okp {
		evs = append(evs, "stuck")
	}
	if !s.awaitRemovals() {
		evs = append(evs, "stuck-removal")
	}
	if measure && prompt == "-" {
		prompt = "0"
	}
	return "to=" + sortedIDs(to, bad) + " log=" + joinOr(evs) + " prompt=" + prompt
}

// advance: the mock clock moves while the loop stands at the gate before a re-push (its timer is
// not pending then, so no tick is lost).
func (s *sim) advance(w []string) string {
	ms, ok := kvI(w, "ms")
	if !ok || !s.held || ms < 0 || ms > 10000 {
		return "bad-op"
	}
	// only the request the loop holds may run out of TTL by the jump (any other waiter would be
	// rejected late by construction of the schedule, not by the implementation)
	then := s.now.Add(time.Duration(ms) * time.Millisecond)
	for _, r := range s.reqs {
		if r.waiting && r.id != s.heldID && then.After(r.arrival.Add(r.ttl)) {
			return "bad-op"
		}
	}
	s.now = then
	s.mock.Set(s.now)
	s.scanned = false
	return "ok"
}

// idle: real time passes (at least one TTL watcher scan: its sleeps never exceed the TTL), the mock
// clock stands still; whatever the watcher rejects meanwhile is reported.
func (s *sim) idle(w []string) string {
	ms, ok := kvI(w, "ms")
	if !ok || s.real || ms < 0 || ms > 5000 {
		return "bad-op"
	}
	var to []*reqRec
	var bad []string
	s.pump(func() bool { return false }, time.Duration(ms)*time.Millisecond, func(r *reqRec) {
		if r.verdict == "blocked" {
			to = append(to, r)
		} else {
			bad = append(bad, fmt.Sprintf("!%s:%d", r.verdict, r.id))
		}
	})
	if !s.awaitRemovals() {
		bad = append(bad, "stuck-removal")
	}
	if s.held && time.Duration(ms)*time.Millisecond >= s.ttl+100*time.Millisecond {
		s.scanned = true
	}
	return "to=" + sortedIDs(to, bad)
}

func (s *sim) flush() string {
	n := 0
	for _, r := range s.reqs {
		if r.rmPend {
			n++
		}
	}
	s.hold = false
	s.c.Gate(ptRemove, false)
	for s.c.Release(ptRemove) {
	}
	if !s.awaitRemovals() {
		return "stuck:flush"
	}
	return fmt.Sprintf("ok n=%d", n)
}

func (s *sim) drain() string {
	// StopAll visits every entry of the watch list.  Entries still waiting are released (one Done
	// each, followed through the gate); an entry that already has its verdict (removal held back) must
	// be left alone — a second Done would panic on the processor's goroutine: the process dies and
	// the parent reports it.
	n, done := 0, 0
	for _, r := range s.reqs {
		if r.inMap && r.waiting {
			n++
		} else if r.inMap {
			done++
		}
	}
	s.cancel()
	h0 := s.handled
	var to []*reqRec
	var bad []string
	on := func(r *reqRec) {
		if r.verdict == "blocked" {
			to = append(to, r)
		} else {
			bad = append(bad, fmt.Sprintf("!%s:%d", r.verdict, r.id))
		}
	}
	s.lc.Fire()
	if !s.pump(func() bool { return s.handled-h0 >= n }, 5*time.Second, on) {
		bad = append(bad, "stuck")
	}
	if done > 0 {
		// grace period for the crash (it follows the Fire within microseconds); if the process is
		// still alive afterwards the entries with a verdict were left alone
		s.pump(func() bool { return false }, 300*time.Millisecond, on)
	}
	if !s.awaitRemovals() {
		bad = append(bad, "stuck-removal")
	}
	s.drained = true
	return "drained to=" + sortedIDs(to, bad)
}

func (s *sim) await(w []string) string {
	bound, ok := kvI(w, "bound")
	if !ok || !s.real {
		return "bad-op"
	}
	var got []*reqRec
	var bad []string
	within := 1
	okw := s.until(func() bool {
		for _, r := range s.reqs {
			if r.waiting && !isDone(r) {
				return false
			}
		}
		return true
	}, s.ttl+5*time.Second)
	if !okw {
		bad = append(bad, "stuck")
	}
	for _, r := range s.reqs {
		if r.waiting && isDone(r) {
			r.waiting, r.returned, r.rmPend = false, true, true
			if r.verdict == "blocked" {
				got = append(got, r)
			} else {
				bad = append(bad, fmt.Sprintf("!%s:%d", r.verdict, r.id))
			}
			if r.lat > s.maxLat {
				s.maxLat = r.lat
			}
			if r.lat > time.Duration(bound)*time.Millisecond {
				within = 0
			}
		}
	}
	if !s.awaitRemovals() {
		bad = append(bad, "stuck-removal")
	}
	return fmt.Sprintf("blocked=%s within=%d", sortedIDs(got, bad), within)
}

func (s *sim) close() {
	if s.tmpdir != "" {
		os.RemoveAll(s.tmpdir)
	}
	if s.c != nil {
		s.c.ReleaseAll()
	}
	if s.cancel != nil {
		s.cancel()
	}
}

var maxLatAll time.Duration

// priority values the harness configures as priority groups g<p>: 0..20 and a few large ones (the queue
// orders by the priority NUMBER whatever its size; 999 is what a request without the header gets)
var bigPrios = []int{100, 101, 150, 300, 500, 998}

func prioAllowed(n int) bool {
	if n >= 0 && n <= 20 {
		return true
	}
	for _, b := range bigPrios {
		if n == b {
			return true
		}
	}
	return false
}

func prioGroups() map[string]any {
	groups := map[string]any{}
	for p := 0; p <= 20; p++ {
		groups[fmt.Sprintf("g%d", p)] = p
	}
	for _, p := range bigPrios {
		groups[fmt.Sprintf("g%d", p)] = p
	}
	return groups
}

// ---------------------------------------------------------------- level L1: the shared queue alone

// queueOp drives the real in-memory shared queue (lunar_context.NewMemoryQueue) directly.
func (s *sim) queueOp(w []string) string {
	if w[0] == "qnew" {
		if s.ready || s.l1 != nil || len(w) != 1 {
			return "bad-op"
		}
		s.l1 = lunar_context.NewMemoryQueue("l1", time.Second)
		return "ok"
	}
	if s.l1 == nil {
		return "bad-op"
	}
	switch w[0] {
	case "q-enq":
		id, ok1 := kvI(w, "id")
		prio, ok2 := kvI(w, "prio")
		if !ok1 || !ok2 || id < 0 || prio < 0 {
			return "bad-op"
		}
		// the queue stamps with time.Now().UnixNano(): make sure two enqueues never share a stamp
		t := time.Now().UnixNano()
		for time.Now().UnixNano() == t {
		}
		if err := s.l1.Enqueue(fmt.Sprintf("r%d", id), float64(prio)); err != nil {
			return "err"
		}
		t = time.Now().UnixNano()
		for time.Now().UnixNano() == t {
		}
		return "ok"
	case "q-deq":
		if len(w) != 1 {
			return "bad-op"
		}
		v := s.l1.DequeueIfValueRelevant()
		if v == "" {
			return "-"
		}
		return num(v)
	case "q-rm":
		id, ok := kvI(w, "id")
		if !ok || id < 0 {
			return "bad-op"
		}
		s.l1.Remove(fmt.Sprintf("r%d", id))
		return "ok"
	case "q-size":
		if len(w) != 1 {
			return "bad-op"
		}
		return strconv.FormatInt(s.l1.Size(), 10)
	}
	return "bad-op"
}

// ---------------------------------------------------------------- lock coverage (atomicity of the model's steps)

const engDir = "proxy/src/services/lunar-engine/"

var lockTargets = map[string]lockfacts.Target{
	"Request":        {Dir: engDir + "streams/processors/queue", Type: "Request", Pkg: "processorqueue"},
	"RequestWatcher": {Dir: engDir + "streams/processors/queue", Type: "RequestWatcher", Pkg: "processorqueue"},
	"memoryQueue":    {Dir: engDir + "streams/lunar-context", Type: "memoryQueue", Pkg: "lunarcontext"},
}

// lockOp answers `lock s=<struct> f=<field> fn=<method>` with the mutexes of the struct that are
// syntactically held at EVERY access of the field inside the method (go/ast lockset walk of
// internal/lockfacts over the source tree the harness was built from): `name:x` exclusive,
// `name:r` shared, `-` none, `missing` no such access.
func lockOp(w []string) string {
	st, ok1 := proto.KV(w, "s")
	f, ok2 := proto.KV(w, "f")
	fn, ok3 := proto.KV(w, "fn")
	tg, ok4 := lockTargets[st]
	if !(ok1 && ok2 && ok3 && ok4) {
		return "bad-op"
	}
	repo := os.Getenv("VERIF_REPO")
	if repo == "" {
		repo = "/repo"
	}
	as, err := lockfacts.Extract(repo, tg)
	if err != nil {
		return "err:extract"
	}
	var held map[string]bool
	n := 0
	for _, a := range as {
		if a.Field != f || a.Func != fn || a.Init {
			continue
		}
		n++
		cur := map[string]bool{}
		for _, l := range a.Locks {
			cur[l.Name] = l.Excl
		}
		if held == nil {
			held = cur
			continue
		}
		for k, ex := range held {
			ex2, ok := cur[k]
			if !ok {
				delete(held, k)
			} else {
				held[k] = ex && ex2
			}
		}
	}
	if n == 0 {
		return "missing"
	}
	var out []string
	for k, ex := range held {
		m := "r"
		if ex {
			m = "x"
		}
		out = append(out, k+":"+m)
	}
	sort.Strings(out)
	return joinOr(out)
}

// runCase executes the ops of one case, handing each answer to emit as soon as it is known.
func runCase(ops []string, emit func(string)) {
	s := &sim{}
	defer func() {
		if s.maxLat > maxLatAll {
			maxLatAll = s.maxLat
		}
		s.close()
	}()
	for _, op := range ops {
		w := strings.Fields(op)
		if len(w) == 0 {
			emit("bad-op")
			continue
		}
		if w[0] == "lock" {
			emit(lockOp(w))
			continue
		}
		if w[0] == "qnew" || strings.HasPrefix(w[0], "q-") {
			emit(s.queueOp(w))
			continue
		}
		if w[0] == "cfg2" {
			if s.ready || s.l1 != nil {
				emit("bad-op")
			} else {
				emit(s.setup2(w))
			}
			continue
		}
		if s.engine {
			switch {
			case !s.ready:
				emit("bad-op")
			case w[0] == "arrive":
				emit(s.arriveEngine(w))
			case w[0] == "tick" && len(w) == 1:
				emit(s.tickEngine())
			case w[0] == "nudge":
				ms, ok := kvI(w, "ms")
				if !ok || ms <= 0 || s.nudged+time.Duration(ms)*time.Millisecond >= 100*time.Millisecond {
					emit("bad-op")
				} else {
					// less than a tick: the loop's timer (due 100 ms after the last tick) does not fire
					s.nudged += time.Duration(ms) * time.Millisecond
					s.now = s.now.Add(time.Duration(ms) * time.Millisecond)
					s.mock.Set(s.now)
					emit("ok")
				}
			default:
				emit("bad-op")
			}
			continue
		}
		if s.duo {
			switch {
			case !s.ready:
				emit("bad-op")
			case w[0] == "arrive":
				emit(s.arrive2(w))
			case w[0] == "tick":
				emit(s.tick2(w))
			default:
				emit("bad-op")
			}
			continue
		}
		if w[0] == "cfg" {
			if s.ready || s.l1 != nil {
				emit("bad-op")
			} else {
				emit(s.setup(w))
			}
			continue
		}
		if !s.ready || s.drained || (s.held && w[0] != "arrive" && w[0] != "tick-release" && w[0] != "idle" && w[0] != "advance") {
			emit("bad-op")
			continue
		}
		switch w[0] {
		case "arrive":
			emit(s.arrive(w, false))
		case "arrive-tick":
			emit(s.arriveTick(w))
		case "arrive-begin":
			emit(s.arrive(w, true))
		case "arrive-end":
			emit(s.arriveEnd(w))
		case "tick":
			if s.real || len(w) != 1 {
				emit("bad-op")
			} else {
				emit(s.tick(false))
			}
		case "tick-hold":
			if s.real || len(w) != 1 {
				emit("bad-op")
			} else {
				emit(s.tick(true))
			}
		case "tick-release":
			if !s.held || len(w) != 1 {
				emit("bad-op")
			} else {
				emit(s.tickRelease())
			}
		case "idle":
			emit(s.idle(w))
		case "advance":
			emit(s.advance(w))
		case "hold-remove":
			if s.real {
				emit("bad-op")
			} else {
				s.hold = true
				s.c.Gate(ptRemove, true)
				emit("ok")
			}
		case "flush-remove":
			if s.real {
				emit("bad-op")
			} else {
				emit(s.flush())
			}
		case "drain":
			if s.real {
				emit("bad-op")
			} else {
				emit(s.drain())
			}
		case "await":
			emit(s.await(w))
		default:
			emit("bad-op")
		}
	}
}

// Every case runs in a child process (a crash of the processor is then an observation, not the end
// of the run); VERIF_C06_INPROC=1 runs cases without `drain` in-process (debugging).
func needsChild(ops []string) bool {
	if len(ops) > 0 && ops[0] == "qnew" {
		return false // no goroutines of the implementation involved
	}
	if os.Getenv("VERIF_C06_INPROC") == "" {
		return true
	}
	for _, op := range ops {
		if strings.HasPrefix(op, "drain") {
			return true
		}
	}
	return false
}

// runInChild re-executes this binary for one case; a crash of the processor is then an observation.
func runInChild(ops []string) []string {
	cmd := exec.Command(os.Args[0])
	cmd.Env = append(os.Environ(), "VERIF_C06_CHILD=1")
	cmd.Stdin = strings.NewReader(strings.Join(ops, "\n") + "\n")
	var out, errb bytes.Buffer
	cmd.Stdout = &out
	cmd.Stderr = &errb
	err := cmd.Run()
	var outs []string
	for _, l := range strings.Split(out.String(), "\n") {
		if strings.HasPrefix(l, "#lat ") {
			if ms, e := strconv.ParseInt(l[5:], 10, 64); e == nil && time.Duration(ms)*time.Millisecond > maxLatAll {
				maxLatAll = time.Duration(ms) * time.Millisecond
			}
			continue
		}
		if l != "" {
			outs = append(outs, l)
		}
	}
	if len(outs) > len(ops) {
		outs = outs[:len(ops)]
	}
	if len(outs) < len(ops) || err != nil {
		what := "child-died"
		if err == nil {
			what = "child-short"
		}
		if strings.Contains(errb.String(), "negative WaitGroup counter") {
			what = "negative-waitgroup"
		} else if i := strings.Index(errb.String(), "panic: "); i >= 0 {
			msg := errb.String()[i+7:]
			if j := strings.IndexByte(msg, '\n'); j >= 0 {
				msg = msg[:j]
			}
			if len(msg) > 60 {
				msg = msg[:60]
			}
			what = proto.Enc(msg)
		}
		if os.Getenv("VERIF_DEBUG") != "" {
			fmt.Fprintln(os.Stderr, errb.String())
		}
		// the crash belongs to the last operation that was running: the first unanswered one, or -
		// when the process died after its last answer (grace period of drain) - the last one
		at := len(outs)
		if at >= len(ops) {
			at = len(ops) - 1
		}
		outs = append(outs[:at], "panic "+what)
		for len(outs) < len(ops) {
			outs = append(outs, "dead")
		}
	}
	return outs
}

func childMain() {
	zerolog.SetGlobalLevel(zerolog.Disabled)
	var ops []string
	sc := bufio.NewScanner(os.Stdin)
	for sc.Scan() {
		if sc.Text() != "" {
			ops = append(ops, sc.Text())
		}
	}
	runCase(ops, func(a string) {
		os.Stdout.WriteString(a + "\n")
	})
	os.Stdout.WriteString(fmt.Sprintf("#lat %d\n", maxLatAll.Milliseconds()))
}

func execCase(c proto.Case, o *proto.Out) []string {
	var outs []string
	if needsChild(c.Ops) {
		outs = runInChild(c.Ops)
	} else {
		runCase(c.Ops, func(a string) { outs = append(outs, a) })
	}
	// input distribution / non-triviality, from ops and answers only
	allowed, refused, crash := 0, 0, false
	for i, op := range c.Ops {
		w := strings.Fields(op)
		if len(w) == 0 || i >= len(outs) {
			continue
		}
		a := outs[i]
		o.Count("op-" + w[0])
		switch {
		case w[0] == "q-deq":
			if a != "-" {
				o.Count("l1-dequeue")
			}
		case a == "pending":
			o.Count("engine-call-pending")
		case a == "blocked":
			refused++
			o.Count("verdict-no-slot")
		case strings.HasPrefix(a, "to=") && w[0] == "idle":
			if a != "to=-" {
				o.Count("idle-with-timeouts")
			}
		case strings.HasPrefix(a, "to=") || strings.HasPrefix(a, "log=") || w[0] == "arrive-tick":
			aw := strings.Fields(a)
			if p, ok := proto.KV(aw, "prompt"); ok && p != "-" {
				o.Count("held-expired-prompt-test")
			}
			if h, ok := proto.KV(aw, "held"); ok && h != "-" {
				o.Count("loop-held-before-repush")
			}
			if t, ok := proto.KV(aw, "to"); ok && t != "-" {
				n := len(strings.Split(t, ","))
				refused += n
				o.Count("tick-with-timeouts")
			}
			if l, ok := proto.KV(aw, "adm"); ok && l != "-" {
				allowed += len(strings.Split(l, ","))
				o.Count("engine-tick-with-admissions")
			}
			for _, key := range []string{"a", "b"} {
				if l, ok := proto.KV(aw, key); ok && l != "-" {
					for _, e := range strings.Split(l, ",") {
						if strings.HasPrefix(e, "v:") {
							allowed++
							o.Count("verdict-allowed-two-processors")
						}
					}
				}
			}
			if l, ok := proto.KV(aw, "log"); ok && l != "-" {
				for _, e := range strings.Split(l, ",") {
					switch {
					case strings.HasPrefix(e, "v:"):
						allowed++
						o.Count("verdict-allowed")
					case strings.HasPrefix(e, "e:"):
						o.Count("quota-refusal-repush")
					}
				}
			}
		case strings.HasPrefix(a, "drained"):
			if t, _ := proto.KV(strings.Fields(a), "to"); t != "-" {
				refused += len(strings.Split(t, ","))
			}
			o.Count("drain-clean")
		case strings.HasPrefix(a, "panic"):
			crash = true
			o.Count("drain-panic")
		case strings.HasPrefix(a, "blocked="):
			refused++
			o.Count("wall-clock-ttl-case")
		case strings.HasPrefix(a, "stuck") || strings.Contains(a, "stuck"):
			o.Count("stuck")
		}
	}
	if len(c.Ops) > 0 && c.Ops[0] == "qnew" {
		rm, dq := 0, 0
		for i, op := range c.Ops {
			if strings.HasPrefix(op, "q-rm") {
				rm++
			}
			if op == "q-deq" && i < len(outs) && outs[i] != "-" {
				dq++
			}
		}
		if rm > 0 && dq > 1 {
			crash = true // counts as non-trivial: a removal and several dequeues
		}
	}
	if (allowed > 0 && refused > 0) || crash {
		o.NonTrivial(strings.Join(c.Ops, "|") + "#" + strings.Join(outs, "|"))
	}
	o.Extra["ttl_wallclock_max_latency_ms"] = maxLatAll.Milliseconds()
	return outs
}

func main() {
	if os.Getenv("VERIF_C06_CHILD") != "" {
		childMain()
		return
	}
	zerolog.SetGlobalLevel(zerolog.Disabled)
	proto.Main(proto.Harness{Rule: rule, Gen: gen, Exec: execCase})
}

// ---------------------------------------------------------------- generators

const baseMs = 1_700_000_000_000

func genCfg(r *prng.R, size, ttl, max, win int) string {
	off := 100 * r.Intn(10)
	if r.Chance(30) {
		off = r.Intn(1000)
	}
	return fmt.Sprintf("cfg size=%d ttl=%d max=%d win=%d t0=%d mode=mock", size, ttl, max, win, baseMs+off)
}

func genPrio(r *prng.R, spread int) string {
	if r.Chance(8) {
		return "none"
	}
	if r.Chance(12) {
		return strconv.Itoa(prng.Pick(r, bigPrios)) // large priority numbers order like small ones
	}
	return strconv.Itoa(r.Intn(spread))
}

// sequential scenario: arrivals and ticks; `long` lets time-outs happen (costs real seconds).
func genSequential(r *prng.R, long bool) []string {
	size := r.Range(1, 4)
	ttl := 2
	nops := r.Range(8, 22)
	arriveP := 30
	if long {
		ttl = 1
		nops = r.Range(24, 40)
		arriveP = 14
	}
	max := r.Range(0, 3)
	if r.Chance(70) {
		max = r.Range(1, 2)
	}
	win := r.Range(1, 3)
	ops := []string{genCfg(r, size, ttl, max, win)}
	spread := r.Range(1, 3)
	id := 0
	burst := 0
	ticks := 0
	for len(ops) < nops {
		if !long && ticks >= 18 {
			break
		}
		if burst > 0 || r.Chance(arriveP) {
			if burst == 0 {
				burst = r.Range(1, 4)
			}
			burst--
			ops = append(ops, fmt.Sprintf("arrive id=%d prio=%s", id, genPrio(r, spread)))
			id++
		} else {
			ops = append(ops, "tick")
			ticks++
		}
	}
	return ops
}

// overlapping arrivals through the gate after the slot reservation (former F06b class: the bound must hold)
func genOverlap(r *prng.R) []string {
	size := r.Range(1, 2)
	ops := []string{genCfg(r, size, 2, r.Range(1, 3), r.Range(1, 2))}
	id := 0
	pre := r.Intn(size + 1)
	for ; id < pre; id++ {
		ops = append(ops, fmt.Sprintf("arrive id=%d prio=%s", id, genPrio(r, 2)))
	}
	k := r.Range(2, 3)
	var held []int
	for j := 0; j < k; j++ {
		ops = append(ops, fmt.Sprintf("arrive-begin id=%d prio=%s", id, genPrio(r, 2)))
		held = append(held, id)
		id++
	}
	for _, h := range held {
		ops = append(ops, fmt.Sprintf("arrive-end id=%d", h))
		if r.Chance(30) {
			ops = append(ops, "tick")
		}
	}
	ops = append(ops, fmt.Sprintf("arrive id=%d prio=0", id))
	for t := r.Range(1, 4); t > 0; t-- {
		ops = append(ops, "tick")
	}
	return ops
}

// removals held back (gate before removal): slots stay taken until flushed; optionally shutdown
// meanwhile (former F06c class: StopAll must skip entries that already have their verdict)
func genHold(r *prng.R, withDrain bool) []string {
	size := r.Range(1, 3)
	ops := []string{genCfg(r, size, 2, r.Range(1, 2), r.Range(1, 2))}
	if r.Chance(80) {
		ops = append(ops, "hold-remove")
	}
	id := 0
	for k := r.Range(1, 3); k > 0; k-- {
		ops = append(ops, fmt.Sprintf("arrive id=%d prio=%s", id, genPrio(r, 2)))
		id++
	}
	lo := 0
	if withDrain {
		lo = 1 // a verdict before shutdown: with removals held this is the former F06c class
	}
	for t := r.Range(lo, 3); t > 0; t-- {
		ops = append(ops, "tick")
	}
	if r.Chance(30) {
		ops = append(ops, "flush-remove")
	}
	ops = append(ops, fmt.Sprintf("arrive id=%d prio=0", id))
	id++
	if r.Chance(50) {
		ops = append(ops, "tick")
	}
	if withDrain {
		ops = append(ops, "drain")
	} else {
		ops = append(ops, "flush-remove", fmt.Sprintf("arrive id=%d prio=1", id), "tick")
	}
	return ops
}

// removal held back across a time-out: the rejected request stays in the watch list and in the heap;
// when the quota window rolls over the loop pops it and must skip it (StartProcessing arbitrates)
func genHoldExpiry(r *prng.R) []string {
	win := r.Range(2, 3)
	ops := []string{genCfg(r, r.Range(2, 3), 1, 1, win), "hold-remove",
		"arrive id=0 prio=0", fmt.Sprintf("arrive id=1 prio=%d", r.Intn(2))}
	for t := win*10 + r.Range(2, 4); t > 0; t-- {
		ops = append(ops, "tick")
	}
	if r.Bool() {
		ops = append(ops, "flush-remove", "arrive id=2 prio=0", "tick")
	}
	return ops
}

// arrivals while the loop stands between a refused attempt and the re-push (gate before re-push):
// the refused request is out of the heap and in state `processing` meanwhile
func genRepush(r *prng.R) []string {
	ops := []string{genCfg(r, r.Range(2, 4), 2, 1, r.Range(1, 2))}
	id := 0
	for k := r.Range(2, 3); k > 0; k-- {
		ops = append(ops, fmt.Sprintf("arrive id=%d prio=%s", id, genPrio(r, 2)))
		id++
	}
	ops = append(ops, "tick-hold")
	for k := r.Range(1, 2); k > 0; k-- {
		ops = append(ops, fmt.Sprintf("arrive id=%d prio=%s", id, genPrio(r, 2)))
		id++
	}
	if r.Chance(30) {
		ops = append(ops, "idle ms=5", "tick") // tick is refused while held
	}
	ops = append(ops, "tick-release")
	for t := r.Range(2, 12); t > 0; t-- {
		if r.Chance(15) {
			ops = append(ops, "tick-hold", "tick-release")
		} else {
			ops = append(ops, "tick")
		}
	}
	return ops
}

// many waiters of mixed priorities; one of them (queued first, so it sits in the middle of the heap's
// backing array) is rejected by time-out and removed while the others still wait; then the quota
// window rolls over and admits several in a row: they must come out in priority order.
func genHeapShape(r *prng.R) []string {
	m := r.Range(3, 5)
	ops := []string{fmt.Sprintf("cfg size=9 ttl=1 max=%d win=2 t0=%d mode=mock", m, baseMs)}
	id := 0
	for k := 0; k < m; k++ { // burn the quota of the first window
		ops = append(ops, fmt.Sprintf("arrive id=%d prio=0", id))
		id++
	}
	ops = append(ops, "tick") // now = 100: window [0, 2000)
	prios := []int{2, 4, 6, 8, 10, 3, 5, 7, 12, 20}
	for t := 2; t <= 9; t++ {
		ops = append(ops, "tick")
	}
	early := r.Range(1, 2)
	for k := 0; k < early; k++ { // arrive at 900: rejected (and removed from the heap) at the tick of the roll-over
		ops = append(ops, fmt.Sprintf("arrive id=%d prio=%d", id, prng.Pick(r, prios)))
		id++
	}
	ops = append(ops, "tick")
	late := r.Range(4, 6)
	first := r.Range(1, late-1)
	for k := 0; k < first; k++ { // arrive at 1000: still alive at 2000 (`After` is strict)
		ops = append(ops, fmt.Sprintf("arrive id=%d prio=%d", id, prng.Pick(r, prios)))
		id++
	}
	ops = append(ops, "tick")
	for k := first; k < late; k++ { // arrive at 1100
		ops = append(ops, fmt.Sprintf("arrive id=%d prio=%d", id, prng.Pick(r, prios)))
		id++
	}
	// 12..19: refused attempts; 20: the early ones are removed from the middle of the heap, the window
	// rolls over and m requests are admitted in a row; 21, 22: the rest expire
	for t := 12; t <= 22; t++ {
		ops = append(ops, "tick")
	}
	return ops
}

// the TTL of a waiter runs out while the processing loop holds that very waiter in an attempt (gate
// before the re-push): the watcher cannot reject it then; it must do so once the attempt is over.
func genExpiryInAttempt(r *prng.R) []string {
	ops := []string{genCfg(r, 3, 1, 1, 3), "arrive id=0 prio=0", "tick", "arrive id=1 prio=1"}
	id := 2
	for t := r.Range(1, 6); t > 0; t-- {
		ops = append(ops, "tick")
	}
	ops = append(ops, "tick-hold", fmt.Sprintf("advance ms=%d", 100*r.Range(10, 14)))
	if r.Bool() { // a fresh waiter arrives while the loop stands there (its TTL starts after the jump)
		ops = append(ops, fmt.Sprintf("arrive id=%d prio=%d", id, r.Range(0, 2)))
		id++
	}
	ops = append(ops, "idle ms=1150", "tick-release")
	if r.Bool() {
		ops = append(ops, fmt.Sprintf("arrive id=%d prio=0", id))
	}
	return append(ops, "tick", "tick")
}

// level L1, random: the shared queue alone (enqueue / dequeue / re-enqueue after a dequeue / remove)
func genQueueRandom(r *prng.R) []string {
	ops := []string{"qnew"}
	next := 0
	var present, popped []int
	spread := prng.Pick(r, []int{2, 4, 50, 1200})
	prio := map[int]int{}
	for n := r.Range(10, 60); n > 0; n-- {
		switch c := r.Intn(10); {
		case c < 4 || len(present) == 0:
			prio[next] = r.Intn(spread)
			ops = append(ops, fmt.Sprintf("q-enq id=%d prio=%d", next, prio[next]))
			present = append(present, next)
			next++
		case c < 6:
			ops = append(ops, "q-deq")
			popped = nil // which one came out is the implementation's answer: re-enqueue handled below
		case c < 8:
			k := r.Intn(len(present))
			ops = append(ops, fmt.Sprintf("q-rm id=%d", present[k]))
			present = append(present[:k], present[k+1:]...)
		case c < 9:
			// a refused attempt: dequeue ... enqueue the same ids again is not expressible without the
			// answer; enqueue an id that is (probably) still present again instead: a second entry
			k := present[r.Intn(len(present))]
			ops = append(ops, fmt.Sprintf("q-enq id=%d prio=%d", k, prio[k]))
		default:
			ops = append(ops, "q-size")
		}
	}
	_ = popped
	for k := r.Range(0, len(present)+1); k > 0; k-- {
		ops = append(ops, "q-deq")
	}
	return append(ops, "q-size")
}

// level L1, exhaustive: n waiters with the given priorities, one removed, then all dequeued
func queueEnumCase(prios []int, rm int, reenq bool) []string {
	ops := []string{"qnew"}
	for i, p := range prios {
		ops = append(ops, fmt.Sprintf("q-enq id=%d prio=%d", i, p))
	}
	ops = append(ops, fmt.Sprintf("q-rm id=%d", rm))
	if reenq {
		ops = append(ops, fmt.Sprintf("q-enq id=%d prio=%d", len(prios), prios[rm]))
	}
	for range prios {
		ops = append(ops, "q-deq")
	}
	return append(ops, "q-size")
}

func permutations(xs []int, emit func([]int)) {
	var rec func(k int)
	rec = func(k int) {
		if k == len(xs) {
			emit(append([]int(nil), xs...))
			return
		}
		for i := k; i < len(xs); i++ {
			xs[k], xs[i] = xs[i], xs[k]
			rec(k + 1)
			xs[k], xs[i] = xs[i], xs[k]
		}
	}
	rec(0)
}

// arrivals whose publication in the shared queue is interleaved with a pass of the loop (the request
// must be registered before it is published, else the loop pops an id it does not know and forgets it)
func genArriveTick(r *prng.R) []string {
	ops := []string{genCfg(r, r.Range(2, 4), 2, r.Range(1, 3), r.Range(1, 2))}
	id := 0
	spread := r.Range(1, 3)
	for n := r.Range(6, 14); n > 0; n-- {
		switch c := r.Intn(10); {
		case c < 4:
			ops = append(ops, fmt.Sprintf("arrive-tick id=%d prio=%s", id, genPrio(r, spread)))
			id++
		case c < 6:
			ops = append(ops, fmt.Sprintf("arrive id=%d prio=%s", id, genPrio(r, spread)))
			id++
		default:
			ops = append(ops, "tick")
		}
	}
	for t := r.Range(2, 12); t > 0; t-- {
		ops = append(ops, "tick")
	}
	return ops
}

// two Queue processors on ONE shared state and ONE quota id (two flows queuing on the same quota):
// each has its own queue, watch list, loop and TTL watcher; arrivals interleaved between them, ticks of
// both loops in either order
func genDuo(r *prng.R) []string {
	ttlA, ttlB := r.Range(1, 2), r.Range(1, 2)
	if r.Chance(60) {
		ttlA, ttlB = 2, 2
	}
	off := 100 * r.Intn(10)
	ops := []string{fmt.Sprintf("cfg2 sizea=%d ttla=%d sizeb=%d ttlb=%d max=%d win=%d t0=%d",
		r.Range(1, 4), ttlA, r.Range(1, 4), ttlB, r.Range(1, 3), r.Range(1, 2), baseMs+off)}
	id := 0
	spread := r.Range(1, 3)
	for n := r.Range(10, 30); n > 0; n-- {
		if r.Chance(35) {
			ops = append(ops, fmt.Sprintf("arrive id=%d prio=%s proc=%s", id, genPrio(r, spread), prng.Pick(r, []string{"a", "b"})))
			id++
		} else {
			ops = append(ops, "tick order="+prng.Pick(r, []string{"ab", "ba"}))
		}
	}
	for t := r.Range(3, 12); t > 0; t-- {
		ops = append(ops, "tick order="+prng.Pick(r, []string{"ab", "ba"}))
	}
	return ops
}

// the attached quota is an internal limit deep in a quota tree (loaded by the real resource
// management): a request is allowed only when the attached limit AND all its ancestors have room
func genChain(r *prng.R) []string {
	depth := r.Range(1, 3)
	own := r.Range(1, 2)
	var anc []string
	m := own
	for k := 0; k < depth; k++ {
		switch r.Intn(4) {
		case 0:
			m = r.Range(1, 3) // an ancestor may be the tighter one
		default:
			m = m*3 + r.Range(0, 2)
		}
		anc = append(anc, fmt.Sprintf("%d:%d", m, r.Range(2, 3)))
	}
	ops := []string{fmt.Sprintf("cfg size=%d ttl=2 max=%d win=2 t0=%d mode=mock anc=%s",
		r.Range(5, 8), own, baseMs+100*r.Intn(10), strings.Join(anc, ","))}
	id := 0
	for k := r.Range(4, 8); k > 0; k-- {
		ops = append(ops, fmt.Sprintf("arrive id=%d prio=%s", id, genPrio(r, 2)))
		id++
	}
	for t := r.Range(6, 26); t > 0; t-- {
		if r.Chance(12) {
			ops = append(ops, fmt.Sprintf("arrive id=%d prio=%s", id, genPrio(r, 2)))
			id++
		} else {
			ops = append(ops, "tick")
		}
	}
	return ops
}

// the Queue processor of the registry inside a real streams.Stream built from YAML (ExecuteFlow):
// several calls in flight at once, mixed priorities, quota windows rolling over
func genEngine(r *prng.R) []string {
	ttl := 2
	if r.Chance(30) {
		ttl = 1
	}
	max, win := r.Range(1, 2), r.Range(1, 2)
	if r.Chance(30) {
		max, win, ttl = 1, 3, 1 // a long window: most requests run out of their TTL and must leave the engine refused
	}
	kind := "fixed"
	if r.Chance(30) {
		kind = "concurrent" // slots are only given back by responses, which are never sent: max admissions in all
	}
	// offsets off the 100 ms grid put the window boundaries (whole seconds) between two ticks: a nudge can
	// then carry an arrival across a boundary before the loop's next pass
	off := prng.Pick(r, []int{0, 100, 500, 50, 950, 30})
	ops := []string{fmt.Sprintf("cfg size=10 ttl=%d max=%d win=%d t0=%d mode=engine pre=%d qf=%d quota=%s", ttl, max, win,
		baseMs+off, r.Intn(2), r.Intn(2), kind)}
	id := 0
	for n := r.Range(10, 28); n > 0; n-- {
		if (id < 2 || r.Chance(25)) && id < 8 {
			if r.Chance(35) {
				ops = append(ops, fmt.Sprintf("nudge ms=%d", prng.Pick(r, []int{20, 60, 60, 90})))
			}
			ops = append(ops, fmt.Sprintf("arrive id=%d prio=%s", id, strconv.Itoa(prng.Pick(r, []int{1, 3, 5, 5, 8, 150, 300}))))
			id++
		} else {
			ops = append(ops, "tick")
		}
	}
	for t := r.Range(4, 12); t > 0; t-- {
		ops = append(ops, "tick")
	}
	return ops
}

// plain shutdown with waiters
func genDrain(r *prng.R) []string {
	ops := []string{genCfg(r, r.Range(1, 4), 2, r.Range(0, 1), 3)}
	id := 0
	for k := r.Range(1, 4); k > 0; k-- {
		ops = append(ops, fmt.Sprintf("arrive id=%d prio=%s", id, genPrio(r, 3)))
		id++
		if r.Chance(40) {
			ops = append(ops, "tick")
		}
	}
	return append(ops, "drain")
}

// TTL boundary: the watcher is given real time to scan at the instant now == expireAt (nothing may
// expire: `After` is strict) and one tick later (everything queued at that instant expires).
func genBoundary(r *prng.R) []string {
	ops := []string{genCfg(r, r.Range(1, 3), 1, r.Range(0, 1), 3)}
	id := 0
	for k := r.Range(1, 2); k > 0; k-- {
		ops = append(ops, fmt.Sprintf("arrive id=%d prio=%s", id, genPrio(r, 2)))
		id++
	}
	for t := 0; t < 10; t++ {
		ops = append(ops, "tick")
		if t == 4 && r.Chance(50) {
			ops = append(ops, fmt.Sprintf("arrive id=%d prio=0", id))
			id++
		}
	}
	return append(ops, "idle ms=1150", "tick", "tick")
}

// same priority, quota 1 per window, pairs of arrivals: the refused head is pushed back and must keep
// its place (former F06a class)
func genFifo(r *prng.R) []string {
	ops := []string{genCfg(r, r.Range(2, 4), 2, 1, 1)}
	id := 0
	for t := r.Range(0, 2); t > 0; t-- {
		ops = append(ops, "tick")
	}
	for k := r.Range(2, 4); k > 0; k-- {
		ops = append(ops, fmt.Sprintf("arrive id=%d prio=1", id))
		id++
		if r.Chance(40) {
			ops = append(ops, "tick")
		}
	}
	for t := r.Range(8, 16); t > 0; t-- {
		ops = append(ops, "tick")
	}
	return ops
}

// wall-clock TTL measurement (a TEST of (T), real clock, quota that admits nothing)
func genWallClock(r *prng.R) []string {
	k := r.Range(1, 3)
	ops := []string{fmt.Sprintf("cfg size=%d ttl=1 max=0 win=1 t0=%d mode=real", k, baseMs)}
	for i := 0; i <= k; i++ {
		ops = append(ops, fmt.Sprintf("arrive id=%d prio=0", i))
	}
	return append(ops, "await bound=1450")
}

// the critical sections the model's atomic steps stand for (same table as `lockTable` in the driver)
var lockTable = [][3]string{
	{"Request", "state", "StartProcessing"}, {"Request", "state", "StopProcessing"},
	{"Request", "state", "SetProcessedSuccess"}, {"Request", "state", "SetProcessedTimeout"},
	{"Request", "result", "SetProcessedSuccess"}, {"Request", "result", "SetProcessedTimeout"},
	{"Request", "result", "Wait"},
	{"RequestWatcher", "requests", "AddRequest"}, {"RequestWatcher", "requests", "RemoveFromWatchList"},
	{"RequestWatcher", "requests", "GetRequest"}, {"RequestWatcher", "requests", "StopAll"},
	{"RequestWatcher", "requestsExpireAt", "AddRequest"}, {"RequestWatcher", "requestsExpireAt", "RemoveFromWatchList"},
	{"RequestWatcher", "requestsExpireAt", "notifyExpiredRequests"},
	{"RequestWatcher", "requestsExpireAt", "recalculateNextExpireAt"},
	{"memoryQueue", "queue", "Enqueue"}, {"memoryQueue", "queue", "DequeueIfValueRelevant"},
	{"memoryQueue", "queue", "Remove"}, {"memoryQueue", "queue", "Size"},
}

func genLocks() []string {
	var ops []string
	for _, t := range lockTable {
		ops = append(ops, fmt.Sprintf("lock s=%s f=%s fn=%s", t[0], t[1], t[2]))
	}
	return ops
}

func malformed(r *prng.R) []string {
	switch r.Intn(4) {
	case 0:
		return []string{"tick"}
	case 1:
		return []string{"cfg size=1 ttl=0 max=1 win=1 t0=0 mode=mock", "tick"}
	case 2:
		return []string{genCfg(r, 1, 2, 1, 1), "arrive id=3 prio=0", "arrive-end id=0", "frobnicate"}
	default:
		return []string{genCfg(r, 1, 2, 1, 1), "arrive id=0 prio=x", "tick extra", "await bound=10"}
	}
}

func gen(r *prng.R, f proto.Flags, emit func(proto.Case)) {
	nShort, nLong, nOverlap, nHold, nDrain, nWall, nBad, nBound, nFifo, nHoldExp, nRepush, nHeap, nAttempt, nQueue, nPublish, nDuo, nChain, nEngine := 26, 12, 6, 6, 5, 1, 4, 2, 6, 2, 6, 8, 3, 300, 10, 12, 12, 14
	if f.Tier == "thorough" {
		nShort, nLong, nOverlap, nHold, nDrain, nWall, nBad, nBound, nFifo, nHoldExp, nRepush, nHeap, nAttempt, nQueue, nPublish, nDuo, nChain, nEngine = 600, 200, 120, 120, 80, 6, 10, 20, 100, 25, 120, 40, 15, 3000, 150, 150, 150, 60
	}
	id := 0
	add := func(prefix string, ops []string) {
		id++
		emit(proto.Case{ID: fmt.Sprintf("%s%d", prefix, id), Ops: ops})
	}
	add("locks", genLocks())
	// level L1, exhaustive small scope: all priority permutations x all removal positions
	maxN := 5
	if f.Tier == "thorough" {
		maxN = 6
	}
	for n := 4; n <= maxN; n++ {
		base := []int{10, 20, 30, 40, 50, 60}[:n]
		permutations(append([]int(nil), base...), func(p []int) {
			for rm := 0; rm < n; rm++ {
				add("qe", queueEnumCase(p, rm, false))
			}
		})
	}
	// ... priority numbers on both sides of 100 and far above it (no removal needed: plain order)
	permutations([]int{90, 100, 101, 300, 999}, func(p []int) {
		add("qb", queueEnumCase(p, 0, true))
	})
	// ... with two equal priorities and a re-enqueue after the removal
	permutations([]int{10, 20, 20, 30, 40}, func(p []int) {
		for rm := 0; rm < 5; rm++ {
			add("qd", queueEnumCase(p, rm, true))
		}
	})
	for b := 0; b < f.Budget; b++ {
		for k := 0; k < nShort; k++ {
			add("s", genSequential(r.Fork(), false))
		}
		for k := 0; k < nOverlap; k++ {
			add("o", genOverlap(r.Fork()))
		}
		for k := 0; k < nHold; k++ {
			rr := r.Fork()
			add("h", genHold(rr, rr.Bool()))
		}
		for k := 0; k < nDrain; k++ {
			add("d", genDrain(r.Fork()))
		}
		for k := 0; k < nBad; k++ {
			add("m", malformed(r.Fork()))
		}
		for k := 0; k < nFifo; k++ {
			add("f", genFifo(r.Fork()))
		}
		for k := 0; k < nRepush; k++ {
			add("r", genRepush(r.Fork()))
		}
		for k := 0; k < nQueue; k++ {
			add("q", genQueueRandom(r.Fork()))
		}
		for k := 0; k < nPublish; k++ {
			add("u", genArriveTick(r.Fork()))
		}
		for k := 0; k < nDuo; k++ {
			add("t", genDuo(r.Fork()))
		}
		for k := 0; k < nChain; k++ {
			add("c", genChain(r.Fork()))
		}
		for k := 0; k < nEngine; k++ {
			add("e", genEngine(r.Fork()))
		}
		if b > 0 {
			// widened search (budget > 1): only the classes that cost no real time are multiplied
			continue
		}
		for k := 0; k < nLong; k++ {
			add("l", genSequential(r.Fork(), true))
		}
		for k := 0; k < nHoldExp; k++ {
			add("x", genHoldExpiry(r.Fork()))
		}
		for k := 0; k < nHeap; k++ {
			add("p", genHeapShape(r.Fork()))
		}
		for k := 0; k < nAttempt; k++ {
			add("a", genExpiryInAttempt(r.Fork()))
		}
		for k := 0; k < nBound; k++ {
			add("b", genBoundary(r.Fork()))
		}
		for k := 0; k < nWall; k++ {
			add("w", genWallClock(r.Fork()))
		}
	}
}
