package main

// POLICIES mode (LUNAR_STREAMS_ENABLED unset): the configuration payload is one policies document pushed to
// POST /apply_policies (UpdateRawData: validate, build, UpdatePoliciesData = register the endpoints with
// HAProxy and only then switch versions, write policies.yaml; then ReloadFromFile), plus the two revert
// endpoints. One real HandlingDataManager in policies mode behind httptest, the stub HAProxy refusing the
// admin calls of one request. Ops:
//
//	pinit k=<label>                          → ok | err:load     (policies.yaml := label, loaded)
//	pstate                                   → disk=<label|sha:..> run=<s40k|pass>
//	ppush k=<label>|invalid|badyaml fault=none|ha  → status=<n>
//	prevert to=last|diag fault=none|ha       → status=<n>
//
// Policies of label k answer a transaction carrying `early-response: true` to pol.test/* with status 400+k
// (an endpoint-level fixed_response remedy), so `run` shows which policies serve NEW transactions.

import (
	"fmt"
	"io"
	"log"
	"net"
	"net/http"
	"net/http/httptest"
	"os"
	"strings"
	"time"

	"lunar/engine/actions"
	"lunar/engine/routing"
	context_manager "lunar/toolkit-core/context-manager"

	"github.com/negasus/haproxy-spoe-go/message"
	"github.com/negasus/haproxy-spoe-go/payload/kv"
	"github.com/negasus/haproxy-spoe-go/request"

	"verif/harness/internal/proto"
)

func policiesYAML(label string) []byte {
	switch label {
	case "invalid": // fails validation: a remedy without a known plugin type
		return []byte("global:\n  remedies:\n    - name: broken\n      enabled: true\n      config: {}\n")
	case "badyaml":
		return []byte("global: [unclosed\n  - : :\n\t{{{\n")
	}
	k := 0
	fmt.Sscanf(label, "%d", &k)
	return []byte(fmt.Sprintf(`global:
  remedies: []
  diagnosis: []
endpoints:
  - url: pol.test/*
    method: GET
    remedies:
      - name: fixed%d
        enabled: true
        config:
          fixed_response:
            status_code: %d
    diagnosis: []
`, k, 400+k))
}

type pworld struct {
	ha              *fakeHAProxy
	srv             *httptest.Server
	rd              *routing.HandlingDataManager
	handler         routing.MessageHandler
	path            string
	seq             int
	transportErrors int
}

var thePWorld *pworld

func getPWorld() *pworld {
	if thePWorld != nil {
		return thePWorld
	}
	w := &pworld{path: os.Getenv("LUNAR_PROXY_POLICIES_CONFIG")}
	if sl, err := net.Listen("tcp", "127.0.0.1:5140"); err == nil {
		go func() {
			for {
				c, err := sl.Accept()
				if err != nil {
					return
				}
				go io.Copy(io.Discard, c)
			}
		}()
	}
	http.DefaultClient.Transport = &bodyTracker{rt: http.DefaultTransport}
	w.ha = &fakeHAProxy{round: func() int { return 0 }, managed: map[string]bool{}, everSeen: map[string]bool{}}
	serve(os.Getenv("HAPROXY_MANAGE_ENDPOINTS_PORT"), w.ha.admin)
	serve(os.Getenv("LUNAR_HEALTHCHECK_PORT"), w.ha.health)
	w.rd = routing.NewHandlingDataManager(5*time.Second, nil)
	if err := w.rd.Setup(nil); err != nil {
		panic("c08: policies-mode engine set-up failed: " + err.Error())
	}
	mux := http.NewServeMux()
	w.rd.SetHandleRoutes(mux)
	w.srv = httptest.NewUnstartedServer(mux)
	w.srv.Config.ErrorLog = log.New(io.Discard, "", 0)
	w.srv.Start()
	w.handler = routing.Handler(w.rd)
	// frozen mock clock from here on: the delayed un-manage goroutines never fire
	context_manager.Get().SetMockClock()
	thePWorld = w
	return w
}

func (w *pworld) post(path string, body []byte) (int, string) {
	resp, err := http.Post(w.srv.URL+path, "application/yaml", strings.NewReader(string(body)))
	if err != nil {
		w.transportErrors++
		return 0, transportClass(err)
	}
	defer resp.Body.Close()
	b, _ := io.ReadAll(resp.Body)
	return resp.StatusCode, string(b)
}

func (w *pworld) state() string {
	disk := "absent"
	if b, err := os.ReadFile(w.path); err == nil {
		disk = "sha:" + sha(b)
		for k := 0; k <= 9; k++ {
			if string(b) == string(policiesYAML(fmt.Sprint(k))) {
				disk = fmt.Sprint(k)
			}
		}
	}
	w.seq++
	id := fmt.Sprintf("pprobe-%d-%d", os.Getpid(), w.seq)
	kvs := kv.NewKV()
	kvs.Add("id", id)
	kvs.Add("sequence_id", id)
	kvs.Add("method", "GET")
	kvs.Add("scheme", "http")
	kvs.Add("url", "pol.test/x")
	kvs.Add("path", "/x")
	kvs.Add("query", "")
	kvs.Add("headers", "early-response: true\r\n")
	kvs.Add("body", []byte(""))
	req := request.Request{Messages: &message.Messages{{Name: "lunar-on-request", KV: kvs}}}
	w.handler(&req)
	run, early := "pass", false
	for _, a := range req.Actions {
		switch a.Name {
		case actions.ReturnEarlyResponseActionName:
			if b, ok := a.Value.(bool); ok && b {
				early = true
			}
		case actions.StatusCodeActionName:
			run = "s" + fmt.Sprint(a.Value)
		}
	}
	if !early {
		run = "pass"
	}
	return "disk=" + disk + " run=" + run
}

func okLabel(l string) bool {
	return l == "invalid" || l == "badyaml" || (len(l) == 1 && l[0] >= '0' && l[0] <= '9')
}

func runPoliciesCase(ops []string) ([]string, *caseStats) {
	w := getPWorld()
	st := &caseStats{}
	outs := make([]string, len(ops))
	live := false
	for i, op := range ops {
		ws := strings.Fields(op)
		get := func(k string) string { v, _ := proto.KV(ws, k); return v }
		refuse := func() bool {
			f := get("fault")
			w.ha.mu.Lock()
			w.ha.refuseAll = f == "ha"
			w.ha.mu.Unlock()
			return f == "none" || f == "ha"
		}
		done := func() { w.ha.mu.Lock(); w.ha.refuseAll = false; w.ha.mu.Unlock() }
		switch {
		case len(ws) == 2 && ws[0] == "pinit":
			l := get("k")
			if len(l) != 1 || !okLabel(l) {
				outs[i], live = "bad-op", false
				continue
			}
			done()
			must(os.WriteFile(w.path, policiesYAML(l), 0o644))
			s, body := w.post("/apply_policies", nil)
			live = s == 200
			switch {
			case live:
				outs[i] = "ok"
			case s == 0:
				outs[i] = "err:transport-error:" + body
			default:
				outs[i] = "err:load"
			}
		case len(ws) == 1 && ws[0] == "pstate":
			if !live {
				outs[i] = "skip"
				continue
			}
			outs[i] = w.state()
		case len(ws) == 3 && ws[0] == "ppush":
			l := get("k")
			if !okLabel(l) || !refuse() {
				done()
				outs[i] = "bad-op"
				continue
			}
			if !live {
				done()
				outs[i] = "skip"
				continue
			}
			s, body := w.post("/apply_policies", policiesYAML(l))
			done()
			st.Count("ppush-" + fmt.Sprint(s))
			st.nontrivial = true
			if s == 0 {
				outs[i] = "status=transport-error:" + body
			} else {
				outs[i] = fmt.Sprintf("status=%d", s)
			}
		case len(ws) == 3 && ws[0] == "prevert":
			to := get("to")
			if (to != "last" && to != "diag") || !refuse() {
				done()
				outs[i] = "bad-op"
				continue
			}
			if !live {
				done()
				outs[i] = "skip"
				continue
			}
			path := map[string]string{"last": "/revert_to_last_loaded", "diag": "/revert_to_diagnosis_free"}[to]
			s, body := w.post(path, nil)
			done()
			st.Count("prevert-" + fmt.Sprint(s))
			if s == 0 {
				outs[i] = "status=transport-error:" + body
			} else {
				outs[i] = fmt.Sprintf("status=%d", s)
			}
		default:
			outs[i] = "bad-op"
		}
	}
	if tr, ok := http.DefaultClient.Transport.(*bodyTracker); ok {
		tr.closeAll()
	}
	return outs, st
}
