package main

// Parent/child plumbing. The parent runs the harness framework (generator, ops.txt / impl.txt /
// stats.json) and ships every case to a supervised child process that holds the real engine.
// Whatever happens to the child — a transport error of an admin request, a crash of the whole
// process, a hang — becomes an ANSWER of the case that provoked it (`status=transport-error:<class>`,
// `child-died:<how>`), the child is restarted and the run continues with the next case. The model
// never gives such answers, so they surface as divergences and judge failures, never as a failure
// of the machinery.
//
// Wire format, parent -> child (stdin):  CASE <n> \n  then n op lines
//              child -> parent (fd 3):   #c <key> | #nt | #restart   (statistics / requests), then
//                                        n lines `A <answer>`, then END

import (
	"bufio"
	"fmt"
	"os"
	"os/exec"
	"path/filepath"
	"strconv"
	"strings"
	"syscall"
	"time"

	"verif/harness/internal/proto"
)

const caseTimeout = 120 * time.Second

type supervisor struct {
	root     string
	repo     string
	cmd      *exec.Cmd
	in       *bufio.Writer
	inPipe   *os.File
	lines    chan string // lines from the child; closed when it goes away
	starts   int
	errFile  *os.File
	policies bool // the child runs the engine in POLICIES mode (LUNAR_STREAMS_ENABLED=false)
}

func newSupervisor() *supervisor {
	root, err := os.MkdirTemp("", "verif-c08-")
	must(err)
	repo := os.Getenv("VERIF_REPO")
	if repo == "" {
		repo = "/repo"
	}
	return &supervisor{root: root, repo: repo}
}

func (s *supervisor) start() {
	l := newLayout(s.root)
	for _, d := range []string{l.flows, l.quotas, l.pparams, filepath.Dir(l.userMetrics), filepath.Dir(l.defMet), filepath.Dir(l.ppConfig)} {
		must(os.MkdirAll(d, 0o755))
	}
	def, err := os.ReadFile(filepath.Join(s.repo, "proxy", "metrics.yaml"))
	must(err)
	// the metrics configuration loaded at start-up is the repo's built-in file WITHOUT the last entry of
	// general_metrics.metric_value, so that a payload can carry a file that EXTENDS the loaded configuration
	// (same labels, same leading entries, one more): the full built-in file (metrics token n<k>)
	must(os.WriteFile(l.defMet, reduceMetrics(def), 0o644))
	must(os.WriteFile(filepath.Join(filepath.Dir(l.defMet), "metrics.full.yaml"), def, 0o644))
	must(os.WriteFile(filepath.Join(s.root, "discovery.json"), []byte("{}"), 0o644))
	mode, streams := "1", "true"
	if s.policies {
		mode, streams = "policies", "false"
		must(os.WriteFile(filepath.Join(s.root, "policies.yaml"), policiesYAML("0"), 0o644))
	}
	var base []string
	for _, e := range os.Environ() {
		if !strings.HasPrefix(e, "LUNAR_STREAMS_ENABLED=") {
			base = append(base, e)
		}
	}
	env := append(base,
		childEnv+"="+mode, rootEnv+"="+s.root,
		"LUNAR_STREAMS_ENABLED="+streams,
		"LUNAR_PROXY_POLICIES_CONFIG="+filepath.Join(s.root, "policies.yaml"),
		"LUNAR_PROXY_CONFIG_DIR="+s.root,
		// the diagnosis fail-safe watcher of policies mode wants these
		"DIAGNOSIS_FAILSAFE_MIN_SEC_BETWEEN_CALLS=30", "DIAGNOSIS_FAILSAFE_CONSECUTIVE_N=3",
		"DIAGNOSIS_FAILSAFE_MIN_STABLE_SEC=60", "DIAGNOSIS_FAILSAFE_COOLDOWN_SEC=60",
		"DIAGNOSIS_FAILSAFE_HEALTHY_SESSION_RATE=0", "DIAGNOSIS_FAILSAFE_HEALTHY_MAX_LAST_SESSION_SEC=30",
		"HAPROXY_MANAGE_ENDPOINTS_PORT="+freePort(),
		"LUNAR_HEALTHCHECK_PORT="+freePort(),
		"LUNAR_PROXY_FLOW_DIRECTORY="+l.flows,
		"LUNAR_PROXY_QUOTAS_DIRECTORY="+l.quotas,
		"LUNAR_FLOWS_PATH_PARAM_DIR="+l.pparams,
		"LUNAR_FLOWS_PATH_PARAM_CONFIG="+l.ppConfig,
		"LUNAR_PROXY_CONFIG="+l.gateway,
		"LUNAR_PROXY_METRICS_CONFIG="+l.userMetrics,
		"LUNAR_PROXY_METRICS_CONFIG_DEFAULT="+l.defMet,
		"DISCOVERY_STATE_LOCATION="+filepath.Join(s.root, "discovery.json"),
		"REMEDY_STATE_LOCATION="+filepath.Join(s.root, "remedy.json"),
		"LUNAR_PROXY_PROCESSORS_DIRECTORY="+filepath.Join(s.repo, "proxy/src/services/lunar-engine/streams/processors/registry"),
		"LUNAR_HUB_URL=", "LUNAR_API_KEY=", "TENANT_NAME=verif",
	)
	self, err := os.Executable()
	if err != nil {
		self = os.Args[0]
	}
	cmd := exec.Command(self)
	cmd.Env = env
	cmd.Dir = s.root // stray relative files written by the engine land in the scratch tree
	inR, inW, err := os.Pipe()
	must(err)
	outR, outW, err := os.Pipe()
	must(err)
	cmd.Stdin = inR
	cmd.Stdout = os.Stderr // whatever the engine prints must not end up in the protocol or in our stdout
	cmd.Stderr = os.Stderr
	if f, err := os.Create(filepath.Join(s.root, "child.stderr")); err == nil {
		cmd.Stderr = f // kept only when the child hangs (goroutine dump, see exec)
		s.errFile = f
	}
	cmd.ExtraFiles = []*os.File{outW} // fd 3 in the child
	must(cmd.Start())
	inR.Close()
	outW.Close()
	s.cmd, s.inPipe, s.in = cmd, inW, bufio.NewWriter(inW)
	lines := make(chan string, 256)
	s.lines = lines
	go func() {
		sc := bufio.NewScanner(outR)
		sc.Buffer(make([]byte, 1<<20), 1<<24)
		for sc.Scan() {
			lines <- sc.Text()
		}
		outR.Close()
		close(lines)
	}()
	s.starts++
}

// stop kills the child (if any) and says how it ended.
func (s *supervisor) stop() string {
	if s.cmd == nil {
		return "not-running"
	}
	s.inPipe.Close()
	done := make(chan error, 1)
	go func() { done <- s.cmd.Wait() }()
	var err error
	select {
	case err = <-done:
	case <-time.After(2 * time.Second):
		s.cmd.Process.Kill()
		err = <-done
	}
	s.cmd = nil
	how := "exit-0"
	if err != nil {
		how = "exit"
		if ee, ok := err.(*exec.ExitError); ok {
			if ws, ok := ee.Sys().(syscall.WaitStatus); ok && ws.Signaled() {
				how = "signal-" + strconv.Itoa(int(ws.Signal()))
			} else {
				how = "exit-" + strconv.Itoa(ee.ExitCode())
			}
		}
	}
	return how
}

// keepDump saves the stderr of a hung child under <VERIF_ROOT>/out/ for diagnosis.
func (s *supervisor) keepDump(caseID string) {
	root := os.Getenv("VERIF_ROOT")
	if root == "" {
		root = os.TempDir()
	}
	b, err := os.ReadFile(filepath.Join(s.root, "child.stderr"))
	if err != nil {
		return
	}
	dir := filepath.Join(root, "out")
	os.MkdirAll(dir, 0o755)
	os.WriteFile(filepath.Join(dir, fmt.Sprintf("c08-hang-%s-%d.log", caseID, time.Now().Unix())), b, 0o644)
}

func (s *supervisor) shutdown() {
	s.stop()
	os.RemoveAll(s.root)
}

// exec runs one case in the child; it always returns one answer per op line. A case during which the
// child fell silent for caseTimeout is run once more on a fresh child (the goroutine dump of the hung
// one is kept under out/): a hang that the case really causes shows again and is reported, a one-off
// stall of the machine is not turned into a verdict.
func (s *supervisor) exec(c proto.Case, o *proto.Out) []string {
	outs := s.execOnce(c, o)
	if len(outs) > 0 && outs[len(outs)-1] == "child-died:timeout" {
		o.Count("child-timeout-retried")
		outs = s.execOnce(c, o)
	}
	return outs
}

func (s *supervisor) execOnce(c proto.Case, o *proto.Out) []string {
	if s.cmd == nil {
		s.start()
	}
	for _, op := range c.Ops {
		if strings.ContainsAny(op, "\n\r") {
			panic("c08: newline in op line")
		}
	}
	fmt.Fprintf(s.in, "CASE %d\n", len(c.Ops))
	for _, op := range c.Ops {
		s.in.WriteString(op + "\n")
	}
	werr := s.in.Flush()
	var outs []string
	var counts []string
	nontrivial, restart, ended := false, false, false
	died := ""
	deadline := time.After(caseTimeout)
loop:
	for werr == nil {
		select {
		case l, ok := <-s.lines:
			if !ok {
				died = "child-died:" + s.stop()
				break loop
			}
			switch {
			case l == "END":
				ended = true
				break loop
			case strings.HasPrefix(l, "A "):
				outs = append(outs, l[2:])
			case strings.HasPrefix(l, "#c "):
				counts = append(counts, l[3:])
			case strings.HasPrefix(l, "#unsettled "):
				// the op line becomes `tick unsettled`: the model then answers `managed` with n/a as well (the
				// ops slice is the one the framework writes to ops.txt)
				if i, err := strconv.Atoi(l[11:]); err == nil && i >= 0 && i < len(c.Ops) && c.Ops[i] == "tick" {
					c.Ops[i] = "tick unsettled"
					o.Count("tick-unsettled")
				}
			case l == "#nt":
				nontrivial = true
			case l == "#restart":
				restart = true
			}
		case <-deadline:
			// ask the Go runtime of the child for a goroutine dump before killing it, and keep it
			s.cmd.Process.Signal(syscall.SIGQUIT)
			time.Sleep(2 * time.Second)
			s.cmd.Process.Kill()
			s.stop()
			s.keepDump(c.ID)
			died = "child-died:timeout"
			break loop
		}
	}
	if werr != nil && died == "" {
		died = "child-died:" + s.stop()
	}
	if !ended || len(outs) != len(c.Ops) {
		// the child went away in the middle of the case: the ops it did not answer get the verdict
		if died == "" {
			died = "child-died:protocol"
			s.stop()
		}
		for len(outs) < len(c.Ops) {
			outs = append(outs, died)
		}
		outs = outs[:len(c.Ops)]
		o.Count("child-died")
		return outs
	}
	for _, k := range counts {
		o.Count(k)
	}
	if nontrivial {
		o.NonTrivial(strings.Join(c.Ops, "|") + "#" + strings.Join(outs, "|"))
	}
	if restart {
		// the engine saw a transport error: give the next case a fresh process
		s.stop()
		o.Count("child-restarts-after-transport-error")
	}
	return outs
}

// childLoop: serve cases until stdin closes.
func childLoop() {
	out := bufio.NewWriter(os.NewFile(3, "answers"))
	in := bufio.NewReaderSize(os.Stdin, 1<<20)
	for {
		head, err := in.ReadString('\n')
		if err != nil {
			return
		}
		head = strings.TrimSpace(head)
		if !strings.HasPrefix(head, "CASE ") {
			continue
		}
		n, _ := strconv.Atoi(head[5:])
		ops := make([]string, 0, n)
		for i := 0; i < n; i++ {
			l, err := in.ReadString('\n')
			if err != nil {
				return
			}
			ops = append(ops, strings.TrimRight(l, "\r\n"))
		}
		before := transportErrorCount()
		var outs []string
		var st *caseStats
		if os.Getenv(childEnv) == "policies" {
			outs, st = runPoliciesCase(ops)
		} else {
			outs, st = runCase(ops)
		}
		for _, k := range st.counts {
			fmt.Fprintf(out, "#c %s\n", k)
		}
		for _, i := range st.unsettled {
			fmt.Fprintf(out, "#unsettled %d\n", i)
		}
		if st.nontrivial {
			out.WriteString("#nt\n")
		}
		dirty := transportErrorCount() != before
		if dirty {
			out.WriteString("#restart\n")
		}
		for _, a := range outs {
			out.WriteString("A " + a + "\n")
		}
		out.WriteString("END\n")
		out.Flush()
		if dirty {
			return
		}
	}
}

// reduceMetrics drops the last `- name:` entry of general_metrics.metric_value from a metrics.yaml.
func reduceMetrics(full []byte) []byte {
	lines := strings.Split(string(full), "\n")
	start, end := -1, len(lines)
	for i, l := range lines {
		if strings.HasPrefix(strings.TrimSpace(l), "metric_value:") && start < 0 {
			start = i
			continue
		}
		if start >= 0 && l != "" && !strings.HasPrefix(l, " ") && !strings.HasPrefix(l, "#") {
			end = i // next top-level key
			break
		}
	}
	if start < 0 {
		return full
	}
	last := -1
	for i := start + 1; i < end; i++ {
		if strings.HasPrefix(strings.TrimSpace(lines[i]), "- name:") {
			last = i
		}
	}
	if last < 0 {
		return full
	}
	// the entry runs to the next blank line / end of the section
	stop := end
	for i := last + 1; i < end; i++ {
		if strings.TrimSpace(lines[i]) == "" {
			stop = i
			break
		}
	}
	out := append(append([]string{}, lines[:last]...), lines[stop:]...)
	return []byte(strings.Join(out, "\n"))
}

func transportErrorCount() int {
	n := 0
	if theWorld != nil {
		n += theWorld.transportErrors
	}
	if thePWorld != nil {
		n += thePWorld.transportErrors
	}
	return n
}
