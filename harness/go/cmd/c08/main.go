// Harness for C08 (a configuration update is all-or-nothing): drives the REAL
// routing.HandlingDataManager (PUT /configuration, PUT /apply_flows, POST /load_flows behind
// httptest; probe transactions through routing.Handler) over a temporary configuration tree,
// with the `verif` fault hooks of config/gateway_file_system.go, the publish-before-initialise
// yield hook of initializeStreams and a fake HAProxy admin server.  Op lines: see
// lean/LunarVerif/Driver/C08Main.lean.
package main

import (
	"fmt"
	"os"
	"path/filepath"
	"strconv"
	"strings"
	"time"

	"github.com/rs/zerolog"

	"verif/harness/internal/proto"
	"verif/harness/internal/sched"
)

const rule = "cases = initial tree x payload (valid / undecodable / bad base64 / failing validation / adds+changes per directory / " +
	"gateway config / metrics) x endpoint x every fault position (backup read, each clean-up remove, each save, restore read, " +
	"restore store of each changed file placed first or last in Go's map order, HAProxy update in reload round 1 and 2) x " +
	"probe-at-switch on/off; non-trivial = the request got past ParsePayload (phase cleanup/save/reload/ok); distinct by (ops, answers)"

func main() {
	if os.Getenv(childEnv) == "" {
		// parent: generator + framework; every case is executed by a supervised child process
		// holding the real engine (its environment is read at package-init time)
		sv := newSupervisor()
		pv := newSupervisor() // a second engine process, in POLICIES mode, for the cases that start with `pinit`
		pv.policies = true
		code := 0
		func() {
			defer sv.shutdown()
			defer pv.shutdown()
			proto.Main(proto.Harness{Rule: rule, Gen: gen, Exec: func(c proto.Case, o *proto.Out) []string {
				if len(c.Ops) > 0 && strings.HasPrefix(c.Ops[0], "pinit") {
					return pv.exec(c, o)
				}
				return sv.exec(c, o)
			}})
		}()
		os.Exit(code)
	}
	zerolog.SetGlobalLevel(zerolog.Disabled)
	var err error
	builtinMetrics, err = os.ReadFile(newLayout(os.Getenv(rootEnv)).defMet)
	must(err)
	builtinFull, err = os.ReadFile(filepath.Join(filepath.Dir(newLayout(os.Getenv(rootEnv)).defMet), "metrics.full.yaml"))
	must(err)
	childLoop()
}

// ------------------------------------------------------------------ op parsing (mirrors the Lean driver)

// okSeg: one path component, [a-z0-9.]+ but neither "." nor ".." (hidden names are ordinary components)
func okSeg(t string) bool {
	if t == "" || t == "." || t == ".." {
		return false
	}
	for _, c := range t {
		if !(c >= 'a' && c <= 'z' || c >= '0' && c <= '9' || c == '.') {
			return false
		}
	}
	return true
}

// okFileName: [dir/[dir/]]name, up to three components
func okFileName(n string) bool {
	parts := strings.Split(n, "/")
	if len(parts) > 3 {
		return false
	}
	for _, d := range parts {
		if !okSeg(d) {
			return false
		}
	}
	return true
}

func okLogical(l string) bool {
	switch {
	case l == "g" || l == "um" || l == "dm":
		return true
	case strings.HasPrefix(l, "f/") || strings.HasPrefix(l, "q/") || strings.HasPrefix(l, "p/"):
		return okFileName(l[2:])
	}
	return false
}

func rankOf(l string) int {
	switch {
	case strings.HasPrefix(l, "f/"):
		return 0
	case strings.HasPrefix(l, "q/"):
		return 1
	case strings.HasPrefix(l, "p/"):
		return 2
	case l == "g":
		return 3
	case l == "um":
		return 4
	}
	return 5
}

type item struct{ logical, tok string }

type putOp struct {
	ep, method, body string
	items            []item
	faultKind        string // none backup save rread rstore haproxy clean
	faultArg         string
	gate             bool
	corder           []string
	rfirst           bool
	probes           []string
}

func splitNames(s string) []string {
	if s == "%e" {
		return nil
	}
	return strings.Split(s, ",")
}

// initEntry: one word of an `init` line. kind: "" regular file, "out"/"in" symbolic link to a file outside /
// inside (<dir>/lnk/<name>) the configuration directories, "dangling", "dir" (see the Lean driver).
type initEntry struct {
	logical, tok, kind string
}

func parseEntries(ws []string) ([]initEntry, bool) {
	var out []initEntry
	seen := map[string]string{}
	for _, w := range ws {
		parts := strings.Split(w, "=")
		if len(parts) != 2 || !okLogical(parts[0]) || parts[1] == "" {
			return nil, false
		}
		if _, dup := seen[parts[0]]; dup {
			return nil, false
		}
		e := initEntry{logical: parts[0]}
		vs := strings.Split(parts[1], "~")
		switch len(vs) {
		case 1:
			e.tok = vs[0]
		case 2:
			e.tok, e.kind = vs[0], vs[1]
			inDir := strings.Contains(e.logical, "/")
			switch {
			case !inDir:
				return nil, false
			case e.tok == "" && (e.kind == "dangling" || e.kind == "dir"):
			case e.tok != "" && (e.kind == "out" || e.kind == "in"):
			default:
				return nil, false
			}
		default:
			return nil, false
		}
		seen[e.logical] = e.tok
		if e.kind == "dangling" || e.kind == "dir" {
			seen[e.logical] = "\x00"
		}
		out = append(out, e)
	}
	for _, e := range out {
		if e.kind == "in" {
			name := e.logical[2:]
			if strings.Contains(name, "/") || seen[e.logical[:2]+"lnk/"+name] != e.tok {
				return nil, false
			}
		}
	}
	return out, true
}

func parsePut(ws []string) (*putOp, bool) {
	p := &putOp{}
	get := func(k string) (string, bool) { return proto.KV(ws, k) }
	var ok bool
	if p.ep, ok = get("ep"); !ok || (p.ep != "configuration" && p.ep != "apply_flows") {
		return nil, false
	}
	if p.method, ok = get("m"); !ok || (p.method != "PUT" && p.method != "GET" && p.method != "POST") {
		return nil, false
	}
	if p.body, ok = get("body"); !ok || (p.body != "items" && p.body != "badjson" && p.body != "null") {
		return nil, false
	}
	is, ok := get("items")
	if !ok {
		return nil, false
	}
	if is != "%e" {
		seen := map[string]bool{}
		last := 0
		for _, w := range strings.Split(is, ",") {
			parts := strings.Split(w, ":")
			if len(parts) != 2 || !okLogical(parts[0]) || parts[1] == "" || parts[0] == "dm" || seen[parts[0]] || rankOf(parts[0]) < last {
				return nil, false
			}
			seen[parts[0]] = true
			last = rankOf(parts[0])
			p.items = append(p.items, item{parts[0], parts[1]})
		}
	}
	f, ok := get("fault")
	if !ok {
		return nil, false
	}
	switch {
	case f == "none" || f == "backup" || f == "rread":
		p.faultKind = f
	default:
		parts := strings.Split(f, ":")
		if len(parts) == 3 && parts[0] == "hacall" {
			// hacall:<managed|body|capture>:<logical>
			if (parts[1] != "managed" && parts[1] != "body" && parts[1] != "capture") || !okLogical(parts[2]) {
				return nil, false
			}
			parts = []string{"hacall", parts[1] + ":" + parts[2]}
		}
		if len(parts) != 2 {
			return nil, false
		}
		p.faultKind, p.faultArg = parts[0], parts[1]
		switch p.faultKind {
		case "save", "rstore", "sunlink", "runlink":
			if !okLogical(p.faultArg) {
				return nil, false
			}
		case "hacall":
		case "haproxy":
			if p.faultArg != "1" && p.faultArg != "2" {
				return nil, false
			}
		case "clean":
			if p.faultArg != "g" && p.faultArg != "um" {
				return nil, false
			}
		default:
			return nil, false
		}
	}
	g, ok := get("gate")
	if !ok || (g != "0" && g != "1") {
		return nil, false
	}
	p.gate = g == "1"
	co, ok := get("corder")
	if !ok || (co != "g,um" && co != "um,g") {
		return nil, false
	}
	p.corder = strings.Split(co, ",")
	p.rfirst = true
	if rp, ok := get("rpos"); ok {
		if rp != "first" && rp != "last" {
			return nil, false
		}
		p.rfirst = rp == "first"
	}
	pr, ok := get("probes")
	if !ok {
		return nil, false
	}
	p.probes = splitNames(pr)
	return p, true
}

// ------------------------------------------------------------------ execution

func (w *world) writeTree(entries []initEntry) {
	w.wipe()
	outside := filepath.Join(w.l.root, "outside")
	must(os.MkdirAll(filepath.Join(outside, "adir"), 0o755))
	inTargets := map[string][]byte{}
	for _, e := range entries {
		if e.kind == "in" {
			// the link and its target hold the bytes the token means AT THE LINK's path
			inTargets[e.logical[:2]+"lnk/"+e.logical[2:]] = renderTok(e.logical, e.tok)
		}
	}
	for _, e := range entries {
		rp, _ := w.l.real(e.logical)
		must(os.MkdirAll(filepath.Dir(rp), 0o755))
		switch e.kind {
		case "":
			b := renderTok(e.logical, e.tok)
			if tb, ok := inTargets[e.logical]; ok {
				b = tb
				revTok[revKey(e.logical, b)] = e.tok
			}
			must(os.WriteFile(rp, b, 0o644))
		case "out":
			target := filepath.Join(outside, strings.ReplaceAll(e.logical, "/", "_"))
			must(os.WriteFile(target, renderTok(e.logical, e.tok), 0o644))
			must(os.Symlink(target, rp))
		case "in":
			tp, _ := w.l.real(e.logical[:2] + "lnk/" + e.logical[2:])
			must(os.Symlink(tp, rp))
		case "dangling":
			must(os.Symlink(filepath.Join(outside, "nothing-here"), rp))
		case "dir":
			must(os.Symlink(filepath.Join(outside, "adir"), rp))
		}
	}
}

type treeSnap map[string][]byte

func (w *world) snap() treeSnap {
	s := treeSnap{}
	for _, d := range []string{w.l.flows, w.l.quotas, w.l.pparams} {
		filepath.Walk(d, func(p string, info os.FileInfo, err error) error {
			if err == nil && !info.IsDir() {
				if b, err := os.ReadFile(p); err == nil { // through symbolic links; dangling ones are absent
					s[p] = b
				}
			}
			return nil
		})
	}
	for _, p := range []string{w.l.gateway, w.l.userMetrics, w.l.defMet} {
		if b, err := os.ReadFile(p); err == nil {
			s[p] = b
		}
	}
	return s
}

func (w *world) dirFileCount() int {
	n := 0
	for _, d := range []string{w.l.flows, w.l.quotas, w.l.pparams} {
		filepath.Walk(d, func(p string, info os.FileInfo, err error) error {
			if err == nil && !info.IsDir() {
				n++
			}
			return nil
		})
	}
	return n
}

func jsonBody(p *putOp) []byte {
	switch p.body {
	case "badjson":
		return []byte(`{"flows": {"a.yaml": `)
	case "null":
		return []byte("null")
	}
	val := func(it item) string {
		if it.tok == "@" {
			return `"@@not-base64@@"`
		}
		return strconv.Quote(b64(renderTok(it.logical, it.tok)))
	}
	var fields []string
	for _, grp := range []struct{ pre, field string }{{"f/", "flows"}, {"q/", "quotas"}, {"p/", "path_params"}} {
		var kvs []string
		for _, it := range p.items {
			if strings.HasPrefix(it.logical, grp.pre) {
				kvs = append(kvs, strconv.Quote(it.logical[2:])+":"+val(it))
			}
		}
		if len(kvs) > 0 {
			fields = append(fields, strconv.Quote(grp.field)+":{"+strings.Join(kvs, ",")+"}")
		}
	}
	for _, it := range p.items {
		if it.logical == "g" {
			fields = append(fields, `"gateway_config":`+val(it))
		}
		if it.logical == "um" {
			fields = append(fields, `"metrics":`+val(it))
		}
	}
	return []byte("{" + strings.Join(fields, ",") + "}")
}

func phaseOf(status int, body string) string {
	has := func(s string) bool { return strings.Contains(body, s) }
	switch {
	case status == 226:
		return "busy"
	case has("Unsupported Method"):
		return "method"
	case has("Lunar Gateway config is being updated"):
		return "ok"
	case has("Failed to decode incoming data"):
		return "decode"
	case has("No data provided"):
		return "nodata"
	case has("Failed to backup"):
		return "backup"
	case has("Failed to parse incoming data"):
		return "parse"
	case has("Failed to clean up"):
		return "cleanup"
	case has("Failed to save payload content to disk"):
		return "save"
	case has("Validation failed") || has("Failed to load flows") || has("failed to load metrics config") || has("Failed to reload flows"):
		return "reload"
	}
	return "unknown-" + strconv.Itoa(status)
}

type resp struct {
	st   int
	body string
}

// setup installs the fault rules and the gate of a request.
func (w *world) setup(p *putOp) {
	w.ctl.ClearFaults()
	w.hook.reset()
	w.ha.set(0)
	real := func(l string) string { r, _ := w.l.real(l); return r }
	switch p.faultKind {
	case "backup":
		w.ctl.AddFault(sched.FaultRule{Op: "read", Nth: 1})
	case "rread":
		w.ctl.AddFault(sched.FaultRule{Op: "read", Nth: w.dirFileCount() + 2 + 1})
	case "save":
		w.ctl.AddFault(sched.FaultRule{Op: "store", ArgSuffix: real(p.faultArg), Nth: 1})
	case "rstore":
		// the store of this path inside Restore(): its second store if the payload saved it, else its first
		nth := 1
		for _, it := range p.items {
			if it.logical == p.faultArg && it.tok != "@" {
				nth = 2
			}
		}
		w.ctl.AddFault(sched.FaultRule{Op: "store", ArgSuffix: real(p.faultArg), Nth: nth})
	case "sunlink", "runlink":
		// the ignored cleanUpFile at the top of storeFileOnDisk fails (the file cannot be unlinked) while
		// create/write succeed. Count the hooked removes of this path that come first: CleanAll's (only the
		// two files go through cleanUpFile) and, for the restore, the one of the save.
		nth := 1
		if p.ep == "apply_flows" && (p.faultArg == "g" || p.faultArg == "um") {
			nth++
		}
		if p.faultKind == "runlink" {
			for _, it := range p.items {
				if it.logical == p.faultArg && it.tok != "@" {
					nth++
				}
			}
			// Restore() stores only backed-up paths; its second loop REMOVES added files through the same
			// hook, and a failure there is a genuine restore failure (not this fault point)
			if _, err := os.Stat(real(p.faultArg)); err != nil {
				nth = 0
			}
		}
		if nth > 0 {
			w.ctl.AddFault(sched.FaultRule{Op: "remove", ArgSuffix: real(p.faultArg), Nth: nth})
		}
	case "haproxy":
		n, _ := strconv.Atoi(p.faultArg)
		w.ha.set(n)
	case "hacall":
		cf := strings.SplitN(p.faultArg, ":", 2)
		w.ha.refuse(map[string]string{"managed": "/managed_endpoint", "body": "/include_body_from", "capture": "/capture_req_from"}[cf[0]], cf[1])
	case "clean":
		w.ctl.AddFault(sched.FaultRule{Op: "remove", ArgSuffix: real(p.faultArg), Nth: 1})
	}
	w.ctl.Gate(yieldPoint, p.gate)
}

func (w *world) launch(p *putOp) chan resp {
	done := make(chan resp, 1)
	body := jsonBody(p)
	go func() {
		st, b := w.do(p.method, "/"+p.ep, body)
		done <- resp{st, b}
	}()
	return done
}

// await serves the switch-point gate (probing there) until the request has been answered.
func (w *world) await(p *putOp, done chan resp) (int, string, []string) {
	var mid []string
	var r resp
	deadline := time.Now().Add(60 * time.Second)
loop:
	for {
		select {
		case r = <-done:
			break loop
		default:
		}
		if w.ctl.Waiting(yieldPoint) > 0 {
			mid = append(mid, w.probe(p.probes))
			w.ctl.Release(yieldPoint)
			continue
		}
		if time.Now().After(deadline) {
			// the handler hangs: an observable outcome; this engine is not usable any more
			w.ctl.ReleaseAll()
			w.hook.unpark()
			w.transportErrors++
			r = resp{0, "hang"}
			break loop
		}
		time.Sleep(50 * time.Microsecond)
	}
	w.ctl.Gate(yieldPoint, false)
	w.ctl.ClearFaults()
	w.ha.set(0)
	if r.st == 0 {
		return 0, "transport-error:" + r.body, mid
	}
	return r.st, phaseOf(r.st, r.body), mid
}

// once performs the request one time; returns status, phase, mid verdict vectors.
func (w *world) once(p *putOp) (int, string, []string) {
	w.setup(p)
	return w.await(p, w.launch(p))
}

// hold starts a push and parks it at the first read of its Backup(). false: it ended before.
func (w *world) hold(p *putOp) (bool, int, string, []string) {
	w.setup(&putOp{faultKind: "none"})
	w.hook.armPark()
	done := w.launch(p)
	deadline := time.Now().Add(30 * time.Second)
	for !w.hook.parked() {
		select {
		case r := <-done:
			w.hook.unpark()
			done <- r
			st, ph, mid := w.await(p, done)
			return false, st, ph, mid
		default:
		}
		if time.Now().After(deadline) {
			w.hook.unpark()
			st, ph, mid := w.await(p, done)
			return false, st, ph, mid
		}
		time.Sleep(50 * time.Microsecond)
	}
	w.heldPut, w.heldDone = p, done
	return true, 0, "", nil
}

// release lets the parked push finish (with ITS fault rules and gate).
func (w *world) release() (int, string, []string) {
	p, done := w.heldPut, w.heldDone
	w.heldPut, w.heldDone = nil, nil
	w.setup(p)
	w.hook.unpark()
	return w.await(p, done)
}

func (x *caseRun) noteHAFault(p *putOp) {
	switch {
	case p.faultKind == "haproxy" && p.faultArg == "2":
		x.haFault = true
	case p.faultKind == "haproxy" || p.faultKind == "hacall":
		x.haFuzzy = true
	}
}

func fmtAnswer(o *caseStats, st int, ph string, mid []string) string {
	m := "%e"
	if len(mid) > 0 {
		m = strings.Join(mid, ";")
	}
	if st == 0 {
		o.Count("transport-error")
		return fmt.Sprintf("status=%s mid=%s", ph, m) // status=transport-error:<class>
	}
	return fmt.Sprintf("status=%d phase=%s mid=%s", st, ph, m)
}

// orderOK: did Go's map iteration put the faulted path where the op line says (first / last among
// the files Restore() writes back)? Only an `rstore:` fault depends on it.
func (w *world) orderOK(p *putOp, before treeSnap) bool {
	if p.faultKind != "rstore" {
		return true
	}
	target, _ := w.l.real(p.faultArg)
	nSaved := 0
	saved := map[string][]byte{}
	for _, it := range p.items {
		if it.tok == "@" {
			return true // rejected by ParsePayload: no restore
		}
		rp, _ := w.l.real(it.logical)
		saved[rp] = renderTok(it.logical, it.tok)
		nSaved++
	}
	log := w.hook.storeLog()
	if len(log) <= nSaved {
		return true // no restore ran (or it had nothing to write)
	}
	rlog := log[nSaved:]
	if rlog[len(rlog)-1] != target {
		return true // the fault never fired
	}
	if p.rfirst {
		return len(rlog) == 1
	}
	// last: every other changed / removed file of the backup was written back before
	diff := 0
	for path, old := range before {
		if path == w.l.defMet {
			continue
		}
		cur, ok := saved[path]
		if !ok && p.ep == "configuration" {
			continue // untouched
		}
		if !ok || string(cur) != string(old) {
			diff++
		}
	}
	return len(rlog) == diff
}

// stats collected while a case runs in the child; shipped to the parent with the answers
type caseStats struct {
	counts     []string
	nontrivial bool
	unsettled  []int // indices of `tick` ops whose delayed jobs did not finish in time
}

func (c *caseStats) Count(k string) { c.counts = append(c.counts, k) }

// runCase executes one case against the real engine (child side).
func runCase(ops []string) ([]string, *caseStats) {
	w := getWorld()
	outs := make([]string, len(ops))
	x := &caseRun{w: w, c: proto.Case{Ops: ops}, o: &caseStats{}}
	for i := range ops {
		outs[i] = x.execOp(i)
	}
	if w.heldPut != nil {
		w.release() // a case must not leave a push parked
	}
	w.bodies.closeAll()
	x.o.nontrivial = x.nontrivial
	return outs, x.o
}

type caseRun struct {
	w          *world
	c          proto.Case
	o          *caseStats
	live       bool
	nontrivial bool
	replaying  bool // re-running a prefix of the case to re-create its state: no statistics
	haFault    bool // the roll-back's HAProxy update was made to fail: the managed set is not predictable any more
	haFuzzy    bool // a HAProxy update failed half-way: which calls got through is Go's map order, until the delay elapses
}

func (x *caseRun) execOp(i int) string {
	w, o := x.w, x.o
	ws := strings.Fields(x.c.Ops[i])
	if len(ws) == 0 {
		return "bad-op"
	}
	switch {
	case ws[0] == "init":
		entries, ok := parseEntries(ws[1:])
		if !ok {
			x.live = false
			return "bad-op"
		}
		if w.heldPut != nil {
			w.release()
		}
		w.hook.unpark()
		w.ctl.ClearFaults()
		w.ctl.ReleaseAll() // nobody may stay parked at the switch point from an aborted case
		w.ctl.Gate(yieldPoint, false)
		w.ha.set(0)
		w.writeTree(entries)
		w.ha.resetManaged()
		x.haFault, x.haFuzzy = false, false
		st, body := w.do("POST", "/load_flows", nil)
		x.live = st == 200
		if x.live {
			return "ok"
		}
		if st == 0 {
			return "err:transport-error:" + body
		}
		return "err:load"
	case ws[0] == "ls" && len(ws) == 1:
		if !x.live {
			return "skip"
		}
		l := w.ls()
		if len(l) == 0 {
			return "%e"
		}
		return strings.Join(l, " ")
	case ws[0] == "probe" && len(ws) == 2:
		if !x.live {
			return "skip"
		}
		return w.probe(splitNames(ws[1]))
	case ws[0] == "put":
		p, ok := parsePut(ws[1:])
		if !ok {
			return "bad-op"
		}
		if !x.live {
			return "skip"
		}
		if w.heldPut != nil && (p.faultKind != "none" || p.gate) {
			return "bad-op"
		}
		x.noteHAFault(p)
		var st int
		var ph string
		var mid []string
		tries := 0
		for {
			before := w.snap()
			st, ph, mid = w.once(p)
			tries++
			if w.orderOK(p, before) {
				break
			}
			if tries >= 400 {
				return "order-unreachable"
			}
			// Go ranged over the backup in another order than the op line states: re-create the
			// state before this request by replaying the case up to here (deterministic), try again
			was := x.replaying
			x.replaying = true
			for j := 0; j < i; j++ {
				x.execOp(j)
			}
			x.replaying = was
		}
		if x.replaying {
			return ""
		}
		if tries > 1 {
			o.Count("map-order-retries")
		}
		o.Count("ep-" + p.ep)
		o.Count("phase-" + ph)
		o.Count("status-" + strconv.Itoa(st))
		o.Count("fault-" + p.faultKind)
		if p.gate {
			o.Count(fmt.Sprintf("gate-mid-%d", len(mid)))
		}
		if p.method != "PUT" {
			o.Count("method-" + p.method)
		}
		if ph == "cleanup" || ph == "save" || ph == "reload" || ph == "ok" {
			x.nontrivial = true
		}
		return fmtAnswer(o, st, ph, mid)
	case ws[0] == "tick" && (len(ws) == 1 || (len(ws) == 2 && ws[1] == "unsettled")):
		if !x.live {
			return "skip"
		}
		// the un-manage delay (staleVersionTTL = 30 s) elapses on the engine's clock; wait until every delayed
		// un-manage job it woke has finished
		w.clock.AdvanceTime(31 * time.Second)
		settled := settle(20 * time.Second)
		x.haFuzzy = false
		if !settled || len(ws) == 2 {
			// not settled (or recorded as such in a replayed case): the managed set is not judged from here on;
			// the parent rewrites the op to `tick unsettled` so that the model knows
			x.haFault = true
			if len(ws) == 1 && !x.replaying {
				x.o.unsettled = append(x.o.unsettled, i)
			}
		}
		return "ok"
	case ws[0] == "managed" && len(ws) == 1:
		if !x.live {
			return "skip"
		}
		if x.haFault || x.haFuzzy {
			return "n/a"
		}
		return w.ha.managedFiles()
	case ws[0] == "hold":
		p, ok := parsePut(ws[1:])
		if !ok {
			return "bad-op"
		}
		if !x.live {
			return "skip"
		}
		if w.heldPut != nil {
			return "bad-op"
		}
		parked, st, ph, mid := w.hold(p)
		if parked {
			if !x.replaying {
				o.Count("hold-parked")
			}
			return "parked"
		}
		return fmtAnswer(o, st, ph, mid)
	case ws[0] == "release" && len(ws) == 1:
		if !x.live {
			return "skip"
		}
		if w.heldPut == nil {
			return "none"
		}
		p := w.heldPut
		x.noteHAFault(p)
		st, ph, mid := w.release()
		if !x.replaying {
			o.Count("release-" + ph)
			o.Count("status-" + strconv.Itoa(st))
			o.Count("ep-" + p.ep)
		}
		if ph == "cleanup" || ph == "save" || ph == "reload" || ph == "ok" {
			x.nontrivial = true
		}
		return fmtAnswer(o, st, ph, mid)
	}
	return "bad-op"
}
