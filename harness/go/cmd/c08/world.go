package main

// The "world" of the C08 harness: a temporary configuration tree, a fake HAProxy admin/health
// server on loopback, and ONE real routing.HandlingDataManager behind httptest, all inside a
// re-exec'ed child process (the engine reads its environment at package-init time).

import (
	"bytes"
	"crypto/sha256"
	"encoding/base64"
	"encoding/hex"
	"errors"
	"fmt"
	"io"
	"log"
	"net"
	"net/http"
	"net/http/httptest"
	"os"
	"path/filepath"
	"runtime"
	"sort"
	"strings"
	"sync"
	"time"

	"lunar/engine/actions"
	"lunar/engine/routing"
	"lunar/toolkit-core/clock"
	context_manager "lunar/toolkit-core/context-manager"
	"lunar/toolkit-core/verifhook"

	"github.com/negasus/haproxy-spoe-go/message"
	"github.com/negasus/haproxy-spoe-go/payload/kv"
	"github.com/negasus/haproxy-spoe-go/request"

	"verif/harness/internal/sched"
)

const (
	yieldPoint = "reload.published-before-init"
	childEnv   = "VERIF_C08_CHILD"
	rootEnv    = "VERIF_C08_ROOT"
)

// logical path -> real path. Logical paths: f/<name> q/<name> p/<name> g um dm
type layout struct {
	root                         string
	flows, quotas, pparams       string
	gateway, userMetrics, defMet string
	ppConfig                     string
}

func newLayout(root string) layout {
	return layout{
		root: root, flows: filepath.Join(root, "flows"), quotas: filepath.Join(root, "quotas"),
		pparams: filepath.Join(root, "path_params"), gateway: filepath.Join(root, "gateway_config.yaml"),
		userMetrics: filepath.Join(root, "user", "metrics.yaml"), defMet: filepath.Join(root, "builtin", "metrics.yaml"),
		ppConfig: filepath.Join(root, "gen", "policies.yaml"),
	}
}

func (l layout) real(logical string) (string, bool) {
	switch {
	case logical == "g":
		return l.gateway, true
	case logical == "um":
		return l.userMetrics, true
	case logical == "dm":
		return l.defMet, true
	case strings.HasPrefix(logical, "f/") && okName(logical[2:]):
		return filepath.Join(l.flows, logical[2:]), true
	case strings.HasPrefix(logical, "q/") && okName(logical[2:]):
		return filepath.Join(l.quotas, logical[2:]), true
	case strings.HasPrefix(logical, "p/") && okName(logical[2:]):
		return filepath.Join(l.pparams, logical[2:]), true
	}
	return "", false
}

func okName(n string) bool { return okFileName(n) }

func freePort() string {
	l, err := net.Listen("tcp", "127.0.0.1:0")
	if err != nil {
		panic(err)
	}
	defer l.Close()
	return fmt.Sprint(l.Addr().(*net.TCPAddr).Port)
}

func must(err error) {
	if err != nil {
		panic(err)
	}
}

// ------------------------------------------------------------------ fake HAProxy

type fakeHAProxy struct {
	mu        sync.Mutex
	failRound int    // PUT/DELETE on the admin port answer 500 while the reload round equals this (0 = never)
	refuseAll bool   // policies mode: refuse every PUT / DELETE while set
	failCall  string // in round 1, refuse only the PUTs of this admin path ... (op fault hacall:<call>:<file>)
	failFile  string // ... for the endpoints of this configuration file
	round     func() int
	adminHits int
	failed    int
	lastHit   time.Time
	managed   map[string]bool // endpoint expressions HAProxy currently hands to the engine
	everSeen  map[string]bool // every endpoint expression ever registered since the last reset
}

func (f *fakeHAProxy) admin(w http.ResponseWriter, r *http.Request) {
	body, _ := io.ReadAll(r.Body)
	f.mu.Lock()
	f.adminHits++
	f.lastHit = time.Now()
	fail := f.failRound != 0 && r.Method == http.MethodPut && f.round() == f.failRound
	if f.refuseAll {
		fail = r.Method == http.MethodPut || r.Method == http.MethodDelete
	}
	if f.failCall != "" {
		fail = r.Method == http.MethodPut && f.round() == 1 && r.URL.Path == f.failCall &&
			endpointFile(string(body)) == f.failFile
	}
	if fail {
		f.failed++
	} else if r.URL.Path == "/managed_endpoint" {
		ep := string(body)
		switch r.Method {
		case http.MethodPut:
			f.managed[ep] = true
			f.everSeen[ep] = true
		case http.MethodDelete:
			delete(f.managed, ep)
		}
	}
	f.mu.Unlock()
	if fail {
		w.WriteHeader(500)
		return
	}
	w.WriteHeader(200)
}

// resetManaged forgets what was registered (a new case starts from the endpoints its `init` registers).
func (f *fakeHAProxy) resetManaged() {
	f.mu.Lock()
	f.managed, f.everSeen = map[string]bool{}, map[string]bool{}
	f.mu.Unlock()
}

// managedFiles maps the managed endpoint expressions (METHOD:::<stem>\.test(/.*)? , …\.quota…) back to the
// configuration files they come from; a file only part of whose endpoints is managed is marked.
func (f *fakeHAProxy) managedFiles() string {
	file := endpointFile
	f.mu.Lock()
	defer f.mu.Unlock()
	total, on := map[string]int{}, map[string]int{}
	for ep := range f.everSeen {
		total[file(ep)]++
	}
	for ep := range f.managed {
		on[file(ep)]++
	}
	var out []string
	for fl, n := range on {
		if n < total[fl] {
			fl += "!partial"
		}
		out = append(out, fl)
	}
	sort.Strings(out)
	if len(out) == 0 {
		return "%e"
	}
	return strings.Join(out, ",")
}

// endpointFile maps an endpoint expression to the configuration file it comes from.
func endpointFile(ep string) string {
	i := strings.Index(ep, ":::")
	if i < 0 {
		return "?" + ep
	}
	host := ep[i+3:]
	switch {
	case strings.Contains(host, `\.test`):
		return "f/" + host[:strings.Index(host, `\.test`)] + ".yaml"
	case strings.Contains(host, `\.quota`):
		return "q/" + host[:strings.Index(host, `\.quota`)] + ".yaml"
	}
	return "?" + ep
}

// settle waits until every delayed un-manage job woken by a clock advance has FINISHED: those jobs are
// goroutines running the closures of config.ScheduleUnmanageHAProxyEndpoints / scheduleUnmanageHAProxyGlobal
// (sleep on the clock, then synchronous DELETE calls to the proxy, then return). The mock clock only moves in
// `tick` (31 s > staleVersionTTL), so every such goroutine that exists is due; none is created while we
// wait. When no goroutine stack mentions those closures any more, every admin call they make has been
// answered (the stub updates its state before it answers). No silence window, no timing assumption.
func settle(limit time.Duration) bool {
	deadline := time.Now().Add(limit)
	buf := make([]byte, 1<<22)
	for {
		n := runtime.Stack(buf, true)
		for n == len(buf) {
			buf = make([]byte, 2*len(buf))
			n = runtime.Stack(buf, true)
		}
		st := buf[:n]
		if !bytes.Contains(st, []byte("config.ScheduleUnmanageHAProxyEndpoints.func")) &&
			!bytes.Contains(st, []byte("config.scheduleUnmanageHAProxyGlobal.func")) {
			return true
		}
		if time.Now().After(deadline) {
			return false
		}
		time.Sleep(time.Millisecond)
	}
}

func (f *fakeHAProxy) health(w http.ResponseWriter, r *http.Request) {
	w.WriteHeader(200)
	w.Write([]byte("OK"))
}

// refuse makes the stub refuse ONE named admin call of the endpoints of one file, in reload round 1.
func (f *fakeHAProxy) refuse(call, file string) {
	f.mu.Lock()
	f.failCall, f.failFile = call, file
	f.mu.Unlock()
}

func (f *fakeHAProxy) set(round int) {
	f.mu.Lock()
	f.failCall, f.failFile = "", ""
	f.failRound = round
	f.failed = 0
	f.mu.Unlock()
}

func serve(port string, h http.HandlerFunc) {
	l, err := net.Listen("tcp", "127.0.0.1:"+port)
	must(err)
	go http.Serve(l, h)
	// "localhost" may resolve to ::1 first
	if l6, err := net.Listen("tcp", "[::1]:"+port); err == nil {
		go http.Serve(l6, h)
	}
}

// bodyTracker closes the response bodies the engine leaves open (client.WaitForHealthcheck and
// config.operateEndpoint never close them: one leaked connection per reload, which exhausts the
// descriptor table of a long run).  Harness hygiene only; bodies are closed after the case that
// produced them.
type bodyTracker struct {
	rt   http.RoundTripper
	mu   sync.Mutex
	open []io.Closer
}

func (t *bodyTracker) RoundTrip(r *http.Request) (*http.Response, error) {
	resp, err := t.rt.RoundTrip(r)
	if err == nil && resp.Body != nil {
		t.mu.Lock()
		t.open = append(t.open, resp.Body)
		t.mu.Unlock()
	}
	return resp, err
}

func (t *bodyTracker) closeAll() {
	t.mu.Lock()
	open := t.open
	t.open = nil
	t.mu.Unlock()
	for _, c := range open {
		c.Close()
	}
}

// ------------------------------------------------------------------ the engine under test

type world struct {
	l       layout
	ctl     *sched.Controller
	hook    *hookCtl
	bodies  *bodyTracker
	ha      *fakeHAProxy
	srv     *httptest.Server
	rd      *routing.HandlingDataManager
	handler routing.MessageHandler
	clock   *clock.MockClock
	seq     int

	transportErrors int // admin requests that died in transport since the child started

	heldPut  *putOp    // a push parked inside its Backup() (op `hold`)
	heldDone chan resp // its pending answer
}

var theWorld *world

func getWorld() *world {
	if theWorld != nil {
		return theWorld
	}
	w := &world{l: newLayout(os.Getenv(rootEnv))}
	// swallow the syslog dial of writers.Dial (otherwise 3 x 1 s of retries)
	if sl, err := net.Listen("tcp", "127.0.0.1:5140"); err == nil {
		go func() {
			for {
				c, err := sl.Accept()
				if err != nil {
					return
				}
				go io.Copy(io.Discard, c)
			}
		}()
	}
	w.bodies = &bodyTracker{rt: http.DefaultTransport}
	http.DefaultClient.Transport = w.bodies
	w.ctl = sched.New()
	w.hook = &hookCtl{inner: w.ctl}
	verifhook.Install(w.hook)
	w.ha = &fakeHAProxy{round: func() int { return w.rounds() }, managed: map[string]bool{}, everSeen: map[string]bool{}}
	serve(os.Getenv("HAPROXY_MANAGE_ENDPOINTS_PORT"), w.ha.admin)
	serve(os.Getenv("LUNAR_HEALTHCHECK_PORT"), w.ha.health)
	w.rd = routing.NewHandlingDataManager(5*time.Second, nil)
	// nil telemetry writer: with an empty LunarTelemetryWriter the periodic Doctor report (every 2 min)
	// dereferences a nil logger and kills the process
	if err := w.rd.Setup(nil); err != nil {
		panic("c08: engine set-up failed: " + err.Error())
	}
	mux := http.NewServeMux()
	w.rd.SetHandleRoutes(mux)
	w.srv = httptest.NewUnstartedServer(mux)
	w.srv.Config.ErrorLog = log.New(io.Discard, "", 0) // "superfluous WriteHeader" of the double handleError
	w.srv.Start()
	w.handler = routing.Handler(w.rd)
	// from here on the engine's clock is the mock clock: the delayed un-manage of HAProxy endpoints
	// (clock.Sleep(staleVersionTTL) = 30 s) fires when the harness advances it (op `tick`)
	w.clock = context_manager.Get().SetMockClock().GetClock().(*clock.MockClock)
	theWorld = w
	return w
}

// rounds = how many times initializeStreams published a new engine since the log was reset.
func (w *world) rounds() int { return w.hook.yields() }

// hookCtl wraps the shared controller: counts publish points and records the order of store calls.
type hookCtl struct {
	inner  *sched.Controller
	mu     sync.Mutex
	nYield int
	stores []string
	rems   []string
	reads  int

	parkArmed bool          // the next "read" (first read of a Backup()) parks its goroutine
	parkCh    chan struct{} // non-nil while a goroutine is parked
}

func (h *hookCtl) Yield(point string) {
	if point == yieldPoint {
		h.mu.Lock()
		h.nYield++
		h.mu.Unlock()
	}
	h.inner.Yield(point)
}

func (h *hookCtl) Fault(op, arg string) error {
	h.mu.Lock()
	if op == "read" && h.parkArmed {
		h.parkArmed = false
		ch := make(chan struct{})
		h.parkCh = ch
		h.mu.Unlock()
		<-ch
		h.mu.Lock()
	}
	switch op {
	case "store":
		h.stores = append(h.stores, arg)
	case "remove":
		h.rems = append(h.rems, arg)
	case "read":
		h.reads++
	}
	h.mu.Unlock()
	return h.inner.Fault(op, arg)
}

func (h *hookCtl) armPark() { h.mu.Lock(); h.parkArmed = true; h.mu.Unlock() }

func (h *hookCtl) parked() bool { h.mu.Lock(); defer h.mu.Unlock(); return h.parkCh != nil }

// unpark disarms the trap and lets a parked goroutine continue.
func (h *hookCtl) unpark() {
	h.mu.Lock()
	h.parkArmed = false
	ch := h.parkCh
	h.parkCh = nil
	h.mu.Unlock()
	if ch != nil {
		close(ch)
	}
}

func (h *hookCtl) yields() int { h.mu.Lock(); defer h.mu.Unlock(); return h.nYield }

func (h *hookCtl) reset() {
	h.mu.Lock()
	h.nYield, h.stores, h.rems, h.reads = 0, nil, nil, 0
	h.mu.Unlock()
}

func (h *hookCtl) removeLog() []string {
	h.mu.Lock()
	defer h.mu.Unlock()
	return append([]string(nil), h.rems...)
}

func (h *hookCtl) storeLog() []string {
	h.mu.Lock()
	defer h.mu.Unlock()
	return append([]string(nil), h.stores...)
}

// wipe removes every tracked file (the built-in metrics file is re-created by `init`).
func (w *world) wipe() {
	for _, d := range []string{w.l.flows, w.l.quotas, w.l.pparams} {
		ents, _ := os.ReadDir(d)
		for _, e := range ents {
			os.RemoveAll(filepath.Join(d, e.Name()))
		}
		os.MkdirAll(d, 0o755)
	}
	os.Remove(w.l.gateway)
	os.Remove(w.l.userMetrics)
	os.Remove(w.l.defMet)
	os.RemoveAll(filepath.Join(w.l.root, "outside"))
}

// ls lists the tracked tree as sorted "logical=token" words.
func (w *world) ls() []string {
	var out []string
	add := func(logical, realPath string) {
		b, err := os.ReadFile(realPath)
		if err != nil {
			return
		}
		out = append(out, logical+"="+tokenOf(logical, b))
	}
	for _, dp := range []struct{ pre, dir string }{{"f/", w.l.flows}, {"q/", w.l.quotas}, {"p/", w.l.pparams}} {
		filepath.Walk(dp.dir, func(p string, info os.FileInfo, err error) error {
			if err == nil && !info.IsDir() {
				rel, _ := filepath.Rel(dp.dir, p)
				add(dp.pre+rel, p)
			}
			return nil
		})
	}
	add("g", w.l.gateway)
	add("um", w.l.userMetrics)
	add("dm", w.l.defMet)
	sort.Strings(out)
	return out
}

// probe sends one request transaction per probe name through the real SPOE message handler.
func (w *world) probe(names []string) string {
	var parts []string
	for _, n := range names {
		w.seq++
		id := fmt.Sprintf("probe-%d", w.seq)
		kvs := kv.NewKV()
		kvs.Add("id", id)
		kvs.Add("sequence_id", id)
		kvs.Add("method", "GET")
		kvs.Add("scheme", "http")
		kvs.Add("url", n+".test/x")
		kvs.Add("path", "/x")
		kvs.Add("query", "")
		kvs.Add("headers", "")
		kvs.Add("body", []byte(""))
		req := request.Request{Messages: &message.Messages{{Name: "lunar-on-request", KV: kvs}}}
		w.handler(&req)
		verdict := "pass"
		early := false
		status := ""
		for _, a := range req.Actions {
			switch a.Name {
			case actions.ReturnEarlyResponseActionName:
				if b, ok := a.Value.(bool); ok && b {
					early = true
				}
			case actions.StatusCodeActionName:
				status = fmt.Sprint(a.Value)
			}
		}
		if early {
			verdict = "s" + status
		}
		parts = append(parts, n+"="+verdict)
	}
	if len(parts) == 0 {
		return "%e"
	}
	return strings.Join(parts, ",")
}

// do performs one admin request. A transport failure (the handler panicked and net/http dropped the
// connection, the server went away, ...) is an observable outcome, not a harness failure: status 0
// and the class of the error.
func (w *world) do(method, path string, body []byte) (int, string) {
	req, err := http.NewRequest(method, w.srv.URL+path, bytes.NewReader(body))
	must(err)
	resp, err := http.DefaultClient.Do(req)
	if err != nil {
		w.transportErrors++
		return 0, transportClass(err)
	}
	defer resp.Body.Close()
	b, err := io.ReadAll(resp.Body)
	if err != nil {
		w.transportErrors++
		return 0, transportClass(err)
	}
	return resp.StatusCode, string(b)
}

func transportClass(err error) string {
	m := err.Error()
	switch {
	case errors.Is(err, io.EOF) || errors.Is(err, io.ErrUnexpectedEOF) || strings.Contains(m, "EOF"):
		return "eof"
	case strings.Contains(m, "connection reset") || strings.Contains(m, "broken pipe"):
		return "reset"
	case strings.Contains(m, "connection refused"):
		return "refused"
	case strings.Contains(m, "timeout") || strings.Contains(m, "deadline"):
		return "timeout"
	}
	return "other"
}

// ------------------------------------------------------------------ content tokens <-> bytes

func b64(b []byte) string { return base64.StdEncoding.EncodeToString(b) }

func stem(logical string) string {
	n := logical
	if i := strings.IndexByte(n, '/'); i >= 0 {
		n = n[i+1:]
	}
	n = strings.TrimSuffix(n, ".yaml")
	var sb strings.Builder
	for _, c := range n {
		if c >= 'a' && c <= 'z' || c >= '0' && c <= '9' {
			sb.WriteRune(c)
		} else {
			sb.WriteByte('x')
		}
	}
	return sb.String()
}

// render gives the bytes a token stands for at a logical path.
//
//	flows      v<k>  : flow named flow_<stem> on <stem>.test/* answering every request with status 400+k
//	quotas     q<k>  : one fixed-window quota quota_<stem> (max = k) on <stem>.quota/*
//	path params p<k> : a path_params document
//	gateway    g<k>  : a YAML map;  metrics m<k>: the built-in metrics.yaml + a comment line (m0 = built-in)
//	any        bad   : text that is not the expected YAML;  empty: zero bytes; x<...>: the literal text
func render(logical, tok string, builtin []byte) []byte {
	k := 0
	if len(tok) >= 2 {
		fmt.Sscanf(tok[1:], "%d", &k)
	}
	switch {
	case tok == "empty":
		return []byte{}
	case tok == "bad":
		return []byte("name: [unclosed\n  - : :\n\t{{{\n")
	case strings.HasPrefix(tok, "x"):
		return []byte(tok)
	case strings.HasPrefix(logical, "f/") && tok[0] == 'd':
		// the flow v<k> of this file, but NAMED like every other d-flow: two of them loaded = duplicate flow name
		good := string(render(logical, "v"+tok[1:], builtin))
		return []byte(strings.Replace(good, "name: flow_"+stem(logical)+"\n", "name: flow_shared_name\n", 1))
	case strings.HasPrefix(logical, "f/") && tok[0] == 'e':
		// valid YAML, but with an EMPTY / null map entry at one level of the flow document: every such file
		// must be refused by the dry run (never crash the loader)
		st := stem(logical)
		good := string(render(logical, "v1", builtin))
		switch k % 6 {
		case 0: // an extra processor whose value is null
			return []byte(strings.Replace(good, "processors:\n", "processors:\n  Extra"+st+":\n", 1))
		case 1: // processors: null
			i := strings.Index(good, "processors:")
			j := strings.Index(good, "flow:")
			return []byte(good[:i] + "processors:\n" + good[j:])
		case 2: // filter: null
			i := strings.Index(good, "filter:")
			j := strings.Index(good, "processors:")
			return []byte(good[:i] + "filter:\n" + good[j:])
		case 3: // a null connection entry in the request flow
			return []byte(strings.Replace(good, "  request:\n", "  request:\n    -\n", 1))
		case 4: // flow: null
			return []byte(good[:strings.Index(good, "flow:")] + "flow:\n")
		default: // a connection whose `from` is null
			return []byte(strings.Replace(good, "  response:\n    - from:\n        processor:\n          name: Gen"+st+"\n", "  response:\n    - from:\n", 1))
		}
	case strings.HasPrefix(logical, "f/") && tok[0] == 'b':
		// the flow v<k> preceded by a processor that needs the request body (UserDefinedMetrics): the engine
		// also asks HAProxy to ship the body for its endpoints (PUT /include_body_from)
		st := stem(logical)
		return []byte(fmt.Sprintf(`name: flow_%[1]s
filter:
  url: %[1]s.test/*
processors:
  Peek%[1]s:
    processor: UserDefinedMetrics
    parameters:
      - key: metric_name
        value: c08_%[1]s_calls
  Flt%[1]s:
    processor: Filter
    parameters:
      - key: method
        value: GET
  Gen%[1]s:
    processor: GenerateResponse
    parameters:
      - key: status
        value: %[2]d
      - key: body
        value: b%[3]d
      - key: Content-Type
        value: text/plain
flow:
  request:
    - from:
        stream:
          name: globalStream
          at: start
      to:
        processor:
          name: Peek%[1]s
    - from:
        processor:
          name: Peek%[1]s
      to:
        processor:
          name: Flt%[1]s
    - from:
        processor:
          name: Flt%[1]s
          condition: hit
      to:
        processor:
          name: Gen%[1]s
    - from:
        processor:
          name: Flt%[1]s
          condition: miss
      to:
        stream:
          name: globalStream
          at: end
  response:
    - from:
        processor:
          name: Gen%[1]s
      to:
        stream:
          name: globalStream
          at: end
`, st, 400+k, k))
	case strings.HasPrefix(logical, "f/") && tok[0] == 'w':
		// the same flow as v<k>, in a longer file (so that rewrites lengthen and shorten files)
		b := render(logical, "v"+tok[1:], builtin)
		return append(b, []byte(strings.Repeat("# padding padding padding padding padding\n", 3+k))...)
	case strings.HasPrefix(logical, "f/") && tok[0] == 'v':
		s := stem(logical)
		return []byte(fmt.Sprintf(`name: flow_%[1]s
filter:
  url: %[1]s.test/*
processors:
  Flt%[1]s:
    processor: Filter
    parameters:
      - key: method
        value: GET
  Gen%[1]s:
    processor: GenerateResponse
    parameters:
      - key: status
        value: %[2]d
      - key: body
        value: v%[3]d
      - key: Content-Type
        value: text/plain
flow:
  request:
    - from:
        stream:
          name: globalStream
          at: start
      to:
        processor:
          name: Flt%[1]s
    - from:
        processor:
          name: Flt%[1]s
          condition: hit
      to:
        processor:
          name: Gen%[1]s
    - from:
        processor:
          name: Flt%[1]s
          condition: miss
      to:
        stream:
          name: globalStream
          at: end
  response:
    - from:
        processor:
          name: Gen%[1]s
      to:
        stream:
          name: globalStream
          at: end
`, s, 400+k, k))
	case strings.HasPrefix(logical, "q/") && tok[0] == 'q':
		s := stem(logical)
		return []byte(fmt.Sprintf(`quotas:
  - id: quota_%s
    filter:
      url: %s.quota/*
    strategy:
      fixed_window:
        max: %d
        interval: 1
        interval_unit: minute
`, s, s, k+1))
	case strings.HasPrefix(logical, "p/") && tok[0] == 'p':
		return []byte(fmt.Sprintf("path_params:\n  - url: %s.pp/a/{id%d}\n", stem(logical), k))
	case logical == "g" && tok[0] == 'g':
		return []byte(fmt.Sprintf("allowed_domains:\n  - d%d.test\n", k))
	case (logical == "um" || logical == "dm") && tok[0] == 'n':
		// the FULL built-in metrics file: extends the configuration loaded at start-up by one metric
		return append(append([]byte{}, builtinFull...), []byte(fmt.Sprintf("\n# full variant %d\n", k))...)
	case (logical == "um" || logical == "dm") && tok[0] == 'm':
		if k == 0 {
			return builtin
		}
		return append(append([]byte{}, builtin...), []byte(fmt.Sprintf("\n# variant %d\n", k))...)
	}
	return []byte(tok)
}

var (
	builtinMetrics []byte
	builtinFull    []byte
	revTok         = map[string]string{} // logical + "\x00" + sha -> token
)

func sha(b []byte) string { h := sha256.Sum256(b); return hex.EncodeToString(h[:8]) }

func revKey(logical string, b []byte) string {
	if logical == "um" || logical == "dm" {
		logical = "m"
	}
	return logical + "\x00" + sha(b)
}

func renderTok(logical, tok string) []byte {
	b := render(logical, tok, builtinMetrics)
	revTok[revKey(logical, b)] = tok
	return b
}

func tokenOf(logical string, b []byte) string {
	if t, ok := revTok[revKey(logical, b)]; ok {
		return t
	}
	return "sha:" + sha(b)
}
