package main

import (
	"fmt"
	"sort"
	"strings"

	"verif/harness/internal/prng"
	"verif/harness/internal/proto"
)

var probeSet = "a,b,c"

var nestedDirs = []string{"team/", "team/x/", "old/"}

var hiddenNames = []string{".gitkeep", "..data", ".hidden/x.yaml", "zz/.keep", "team/.gitkeep"}

type tree map[string]string // logical -> token

func (t tree) line() string {
	keys := make([]string, 0, len(t))
	for k := range t {
		keys = append(keys, k)
	}
	sort.Strings(keys)
	var sb strings.Builder
	sb.WriteString("init")
	for _, k := range keys {
		sb.WriteString(" " + k + "=" + t[k])
	}
	return sb.String()
}

// flowTok: a valid flow, short (v) or long (w) file
func flowTok(r *prng.R) string {
	// v short file, w long file, b with a processor that needs the request body
	return prng.Pick(r, []string{"v", "v", "w", "b"}) + fmt.Sprint(r.Range(1, 3))
}

func genTree(r *prng.R) tree {
	t := tree{"dm": "m0"}
	for _, n := range []string{"a", "b", "c"} {
		if r.Chance(55) {
			t["f/"+n+".yaml"] = flowTok(r)
		}
	}
	if r.Chance(35) {
		t["q/qa.yaml"] = fmt.Sprintf("q%d", r.Range(1, 2))
	}
	if r.Chance(25) {
		t["p/pa.yaml"] = fmt.Sprintf("p%d", r.Range(1, 2))
	}
	if r.Chance(35) {
		t["g"] = "g1"
	}
	if r.Chance(40) {
		t["um"] = fmt.Sprintf("m%d", r.Range(1, 2))
	}
	if r.Chance(15) {
		t["f/d.yaml"] = "v1" // a flow nobody probes
	}
	if r.Chance(8) {
		t["f/"+prng.Pick(r, []string{"a", "b", "c"})+".yaml"] = "d" + fmt.Sprint(r.Range(1, 3)) // shares its name with every other d-flow
	}
	if r.Chance(10) {
		t["q/qb.yaml"] = "q2"
	}
	// files in sub-directories (one and two levels): only the path-params loader reads them, but
	// clean-up, save, backup and restore all treat the directories recursively
	if r.Chance(30) {
		t["p/"+prng.Pick(r, nestedDirs)+"pp.yaml"] = fmt.Sprintf("p%d", r.Range(1, 2))
	}
	if r.Chance(20) {
		t["q/"+prng.Pick(r, nestedDirs)+"qa.yaml"] = fmt.Sprintf("q%d", r.Range(1, 2))
	}
	if r.Chance(20) {
		t["f/"+prng.Pick(r, nestedDirs)+"z.yaml"] = fmt.Sprintf("v%d", r.Range(1, 3))
	}
	// configuration files that are symbolic links (sites-enabled style, mounted volumes): to a file outside
	// or inside the configuration directory, to nothing, to a directory. The init line carries the kind
	// after the token (`v1~out`); everything else in the generator sees only the token.
	if r.Chance(30) {
		switch r.Intn(6) {
		case 0, 1:
			for _, l := range []string{"f/a.yaml", "f/b.yaml", "q/qa.yaml", "p/pa.yaml"} {
				if tok, ok := t[l]; ok && r.Chance(60) {
					t[l] = tok + "~out"
				}
			}
		case 2, 3:
			for _, l := range []string{"f/a.yaml", "f/c.yaml", "q/qa.yaml", "p/pa.yaml"} {
				if tok, ok := t[l]; ok && r.Chance(60) {
					t[l[:2]+"lnk/"+l[2:]] = tok
					t[l] = tok + "~in"
				}
			}
		case 4:
			t[prng.Pick(r, []string{"f/", "q/", "p/"})+"gone.lnk"] = "~dangling"
			if tok, ok := t["f/b.yaml"]; ok {
				t["f/b.yaml"] = tok + "~out"
			}
		default:
			t[prng.Pick(r, []string{"f/", "q/", "p/"})+"dirl.lnk"] = "~dir"
		}
	}
	// hidden files and directories (.gitkeep, the ..data of a mounted volume, .hidden/x.yaml): the loaders
	// ignore them, clean-up / backup / restore treat them like any other file. Dot names sort before the
	// ordinary ones in a directory walk; `zz/.keep` comes after them.
	if r.Chance(35) {
		dir := prng.Pick(r, []string{"f/", "q/", "p/"})
		t[dir+prng.Pick(r, hiddenNames)] = prng.Pick(r, []string{"xkeep", "empty", "xdata"})
		if r.Chance(40) {
			dir2 := prng.Pick(r, []string{"f/", "q/", "p/"})
			t[dir2+prng.Pick(r, hiddenNames)] = "xkeep"
		}
	}
	return t
}

// payload shapes
const (
	shValid = iota
	shInvalidFlow
	shBadB64
	shInvalidQuota
	shInvalidGateway
	shBadMetrics
	shNoop
	shPathParamsOnly
	shEmpty
	shDupNames
	nShapes
)

func sortItems(items []item) {
	sort.SliceStable(items, func(i, j int) bool { return rankOf(items[i].logical) < rankOf(items[j].logical) })
}

func genPayload(r *prng.R, t tree, shape int) []item {
	var items []item
	pick := func(pct int) bool { return r.Chance(pct) }
	flows := []string{"a", "b", "c"}
	prng.Shuffle(r, flows)
	for _, n := range flows {
		if pick(50) {
			items = append(items, item{"f/" + n + ".yaml", flowTok(r)})
		}
	}
	qs := []string{"qa", "qb"}
	prng.Shuffle(r, qs)
	for _, n := range qs {
		if pick(30) {
			items = append(items, item{"q/" + n + ".yaml", fmt.Sprintf("q%d", r.Range(1, 2))})
		}
	}
	if pick(25) {
		items = append(items, item{"p/pa.yaml", fmt.Sprintf("p%d", r.Range(1, 2))})
	}
	if pick(30) {
		// names with a directory component, in each of the three directories
		switch r.Intn(3) {
		case 0:
			items = append(items, item{"p/" + prng.Pick(r, nestedDirs) + "pp.yaml", fmt.Sprintf("p%d", r.Range(1, 2))})
		case 1:
			items = append(items, item{"q/" + prng.Pick(r, nestedDirs) + "qa.yaml", fmt.Sprintf("q%d", r.Range(1, 2))})
		default:
			items = append(items, item{"f/" + prng.Pick(r, nestedDirs) + "z.yaml", fmt.Sprintf("v%d", r.Range(1, 3))})
		}
		if pick(40) {
			items = append(items, item{"p/" + prng.Pick(r, nestedDirs) + "other.yaml", "p1"})
		}
	}
	if pick(30) {
		items = append(items, item{"g", fmt.Sprintf("g%d", r.Range(1, 2))})
	}
	if pick(35) {
		// m<k>: the loaded metrics configuration (+ a comment); n<k>: a file that extends it by one metric
		items = append(items, item{"um", prng.Pick(r, []string{"m", "m", "n"}) + fmt.Sprint(r.Range(1, 2))})
	}
	set := func(l, tok string) {
		for i := range items {
			if items[i].logical == l {
				items[i].tok = tok
				return
			}
		}
		items = append(items, item{l, tok})
	}
	switch shape {
	case shInvalidFlow:
		set("f/"+prng.Pick(r, flows)+".yaml", prng.Pick(r, []string{"bad", "empty", "xjunk", "e0", "e1", "e2", "e3", "e4", "e5"}))
	case shBadB64:
		if len(items) == 0 {
			set("f/a.yaml", "@")
		} else {
			items[r.Intn(len(items))].tok = "@"
		}
	case shInvalidQuota:
		set("q/"+prng.Pick(r, qs)+".yaml", prng.Pick(r, []string{"bad", "bad", "xjunk"}))
	case shInvalidGateway:
		set("g", prng.Pick(r, []string{"bad", "xjunk"}))
	case shBadMetrics:
		set("um", prng.Pick(r, []string{"bad", "bad", "xjunk"}))
	case shNoop:
		items = nil
		ls := make([]string, 0, len(t))
		for l := range t {
			ls = append(ls, l)
		}
		sort.Strings(ls)
		for _, l := range ls {
			tok := strings.Split(t[l], "~")[0] // a linked entry: the token read through the link
			// (not the target of a `~in` link: writing it would change what the link shows — aliasing the
			// model does not carry)
			if l != "dm" && tok != "" && !strings.Contains(l, "/lnk/") && r.Chance(70) {
				items = append(items, item{l, tok})
			}
		}
		sort.Slice(items, func(i, j int) bool { return items[i].logical < items[j].logical })
	case shPathParamsOnly:
		items = []item{{"p/pa.yaml", prng.Pick(r, []string{"p1", "p2", "bad"})}}
	case shEmpty:
		items = nil
	case shDupNames:
		// two pushed flow files carrying the same flow name (refused), or one joining one already in the tree
		n := flows[0]
		set("f/"+n+".yaml", "d"+fmt.Sprint(r.Range(1, 3)))
		if r.Chance(70) {
			set("f/"+flows[1]+".yaml", "d"+fmt.Sprint(r.Range(1, 3)))
		}
	}
	sortItems(items)
	return items
}

func itemsWord(items []item) string {
	if len(items) == 0 {
		return "%e"
	}
	ws := make([]string, len(items))
	for i, it := range items {
		ws[i] = it.logical + ":" + it.tok
	}
	return strings.Join(ws, ",")
}

func putLine(ep, method, body string, items []item, fault string, gate bool, corder string) string {
	g := 0
	if gate {
		g = 1
	}
	return fmt.Sprintf("put ep=%s m=%s body=%s items=%s fault=%s gate=%d corder=%s probes=%s",
		ep, method, body, itemsWord(items), fault, g, corder, probeSet)
}

// faultPositions enumerates every fault position that exists for this payload, tree and endpoint.
func faultPositions(r *prng.R, ep string, t tree, items []item) []string {
	fs := []string{"none", "backup", "rread", "haproxy:1", "haproxy:2"}
	// the proxy refuses ONE named admin call of the endpoints of one file
	for _, it := range items {
		if strings.HasPrefix(it.logical, "f/") && !strings.Contains(it.logical[2:], "/") && it.tok != "@" {
			fs = append(fs, "hacall:managed:"+it.logical)
			if it.tok[0] == 'b' {
				fs = append(fs, "hacall:body:"+it.logical)
			}
		}
	}
	if ep == "apply_flows" {
		fs = append(fs, "clean:g", "clean:um")
	}
	// (an un-removable link to a file INSIDE the tree would make the write land in that other tracked file:
	// aliasing the model does not carry; such paths get no unlink fault)
	aliased := func(l string) bool { return strings.HasSuffix(t[l], "~in") }
	for _, it := range items {
		fs = append(fs, "save:"+it.logical)
		// the file cannot be unlinked, create/write work: content must still be exactly the new bytes
		if !aliased(it.logical) {
			fs = append(fs, "sunlink:"+it.logical)
		}
	}
	// a store failing inside Restore(): the files it writes back are the payload's changed files
	// (and, for /apply_flows, everything the clean-up removed)
	cand := map[string]bool{}
	for _, it := range items {
		cand[it.logical] = true
	}
	if ep == "apply_flows" {
		for l := range t {
			if l != "dm" {
				cand[l] = true
			}
		}
	}
	keys := make([]string, 0, len(cand))
	for k := range cand {
		keys = append(keys, k)
	}
	sort.Strings(keys)
	for _, k := range keys {
		fs = append(fs, "rstore:"+k+" rpos="+prng.Pick(r, []string{"first", "last"}))
		if !aliased(k) {
			fs = append(fs, "runlink:"+k) // the same, inside Restore(): not a failed restore
		}
	}
	return fs
}

// histories: several requests on ONE engine. Every request must be handled from its own payload
// only: what an earlier request carried (rejected at parse, or applied and then replaced through
// the other endpoint) must not leak into a later one.
func genHistory(r *prng.R, t tree, kind int) []string {
	eps := []string{"configuration", "apply_flows"}
	put := func(ep, body string, items []item) string {
		seen := map[string]bool{}
		var uniq []item
		for _, it := range items {
			if !seen[it.logical] {
				seen[it.logical] = true
				uniq = append(uniq, it)
			}
		}
		items = uniq
		sortItems(items)
		return putLine(ep, "PUT", body, items, "none", r.Chance(30), prng.Pick(r, []string{"g,um", "um,g"}))
	}
	flow := func() item {
		return item{"f/" + prng.Pick(r, []string{"a", "b", "c"}) + ".yaml", fmt.Sprintf("v%d", r.Range(1, 3))}
	}
	small := func() []item {
		switch r.Intn(4) {
		case 0:
			return []item{{"g", fmt.Sprintf("g%d", r.Range(1, 2))}}
		case 1:
			return []item{{"um", fmt.Sprintf("m%d", r.Range(1, 2))}}
		case 2:
			return []item{{"p/pa.yaml", fmt.Sprintf("p%d", r.Range(1, 2))}}
		}
		return []item{{"q/qb.yaml", fmt.Sprintf("q%d", r.Range(1, 2))}}
	}
	var puts []string
	switch kind {
	case 0:
		// rejected at parse (the bad value sits in a LATER field than the flows), then a valid push
		// that does not mention the flows at all
		bad := prng.Pick(r, []item{{"g", "@"}, {"um", "@"}, {"q/qa.yaml", "@"}, {"p/pa.yaml", "@"}})
		ep := prng.Pick(r, eps)
		puts = append(puts, put(ep, "items", []item{flow(), flow2(r), bad}))
		fix := []item{{bad.logical, map[string]string{"g": "g2", "um": "m2", "q/qa.yaml": "q2", "p/pa.yaml": "p2"}[bad.logical]}}
		puts = append(puts, put(ep, "items", fix))
		if r.Chance(50) {
			puts = append(puts, put(prng.Pick(r, eps), "items", small()))
		}
	case 1:
		// add through /configuration, replace through /apply_flows, push something unrelated
		puts = append(puts, put("configuration", "items", []item{{"f/c.yaml", "v1"}, {"q/qb.yaml", "q1"}}))
		puts = append(puts, put("apply_flows", "items", []item{flow()}))
		puts = append(puts, put("configuration", "items", small()))
		if r.Chance(50) {
			puts = append(puts, put("apply_flows", "items", small()))
		}
	case 2:
		// rejected by validation, then valid pushes
		puts = append(puts, put(prng.Pick(r, eps), "items", []item{flow(), {"f/" + prng.Pick(r, []string{"a", "b", "c"}) + ".yaml", "bad"}}))
		puts = append(puts, put(prng.Pick(r, eps), "items", small()))
		puts = append(puts, put(prng.Pick(r, eps), "items", []item{flow()}))
	case 3:
		// undecodable bodies in between
		puts = append(puts, put(prng.Pick(r, eps), "items", []item{flow(), {"g", "g1"}}))
		puts = append(puts, put(prng.Pick(r, eps), prng.Pick(r, []string{"null", "badjson"}), nil))
		puts = append(puts, put(prng.Pick(r, eps), "items", small()))
		if r.Chance(50) {
			puts = append(puts, put(prng.Pick(r, eps), "items", []item{flow()}))
		}
	default:
		// random mix of 2..4 requests
		n := r.Range(2, 4)
		for i := 0; i < n; i++ {
			puts = append(puts, put(prng.Pick(r, eps), "items", genPayload(r, t, r.Intn(nShapes))))
		}
	}
	return puts
}

func flow2(r *prng.R) item {
	return item{"q/qa.yaml", fmt.Sprintf("q%d", r.Range(1, 2))}
}

// races: push B parked inside its Backup() (inside the critical section), push A arrives, B released.
// The final tree and serving configuration must be those of some serial order of the pushes answered
// 200 (a 226 collision is a refusal).
func genRace(r *prng.R, t tree, kind int) []string {
	eps := []string{"configuration", "apply_flows"}
	valid := func() []item {
		items := []item{{"f/" + prng.Pick(r, []string{"a", "b", "c"}) + ".yaml", fmt.Sprintf("v%d", r.Range(1, 3))}}
		if r.Chance(40) {
			items = append(items, item{prng.Pick(r, []string{"g", "q/qb.yaml", "p/team/pp.yaml"}), map[bool]string{true: "x", false: "x"}[true]})
			last := &items[len(items)-1]
			switch last.logical {
			case "g":
				last.tok = "g2"
			case "q/qb.yaml":
				last.tok = "q2"
			default:
				last.tok = "p2"
			}
		}
		sortItems(items)
		return items
	}
	refused := func() ([]item, string) {
		items := valid()
		switch r.Intn(3) {
		case 0: // fails validation
			items = append(items, item{"f/" + prng.Pick(r, []string{"d", "e"}) + ".yaml", "bad"})
			sortItems(items)
			return items, "none"
		case 1: // a save fails
			return items, "save:" + items[0].logical
		}
		return items, "haproxy:1" // reload fails after the switch
	}
	co := func() string { return prng.Pick(r, []string{"g,um", "um,g"}) }
	var bItems, aItems []item
	bFault := "none"
	switch kind % 4 {
	case 0: // B refused, A valid  (the seeded interleaving)
		bItems, bFault = refused()
		aItems = valid()
	case 1: // mirrored: B valid, A refused by validation
		bItems = valid()
		aItems = append(valid(), item{"f/e.yaml", "bad"})
		sortItems(aItems)
	case 2: // both valid
		bItems, aItems = valid(), valid()
	default: // both refused
		bItems, bFault = refused()
		aItems = append(valid(), item{"f/e.yaml", "bad"})
		sortItems(aItems)
	}
	hold := "hold" + strings.TrimPrefix(putLine(prng.Pick(r, eps), "PUT", "items", bItems, bFault, r.Chance(30), co()), "put")
	a := putLine(prng.Pick(r, eps), "PUT", "items", aItems, "none", false, co())
	return []string{hold, a, "release"}
}

// delayed effects: what HAProxy is told to manage, 30 s (staleVersionTTL) after the pushes. A push that is
// rolled back AFTER it had switched engines (the metrics reload fails), endpoints removed and re-added
// within the delay, accepted replacements: after `tick`, `managed` must be the endpoints of the serving
// configuration.
func genDelayed(r *prng.R, t tree, kind int) []string {
	eps := []string{"configuration", "apply_flows"}
	co := func() string { return prng.Pick(r, []string{"g,um", "um,g"}) }
	flows := func(n int) []item {
		names := []string{"a", "b", "c"}
		prng.Shuffle(r, names)
		var items []item
		for _, nm := range names[:n] {
			items = append(items, item{"f/" + nm + ".yaml", flowTok(r)})
		}
		if r.Chance(30) {
			items = append(items, item{"q/" + prng.Pick(r, []string{"qa", "qb"}) + ".yaml", fmt.Sprintf("q%d", r.Range(1, 2))})
		}
		sortItems(items)
		return items
	}
	put := func(ep string, items []item) string {
		sortItems(items)
		return putLine(ep, "PUT", "items", items, "none", r.Chance(25), co())
	}
	var ops []string
	add := func(p string) { ops = append(ops, p, "ls", "probe "+probeSet) }
	switch kind % 6 {
	case 4: // the proxy refuses one admin call of a new flow that needs the body: refused, rolled back
		items := flows(r.Range(1, 2))
		items[0].tok = "b" + fmt.Sprint(r.Range(1, 3))
		call := prng.Pick(r, []string{"managed", "body"})
		sortItems(items)
		var bl string
		for _, it := range items {
			if it.tok[0] == 'b' {
				bl = it.logical
			}
		}
		add(putLine(prng.Pick(r, eps), "PUT", "items", items, "hacall:"+call+":"+bl, r.Chance(25), co()))
		ops = append(ops, "managed", "tick", "managed")
		add(put(prng.Pick(r, eps), flows(1)))
		ops = append(ops, "tick", "managed")
	case 5: // accepted pushes carrying metrics files that extend the loaded configuration
		add(put(prng.Pick(r, eps), append(flows(r.Range(1, 2)), item{"um", "n" + fmt.Sprint(r.Range(1, 2))})))
		ops = append(ops, "tick", "managed")
		add(put(prng.Pick(r, eps), append(flows(1), item{"um", prng.Pick(r, []string{"m1", "n2", "bad"})})))
		ops = append(ops, "tick", "managed")
	case 0: // switched, then the metrics reload fails: restored and reloaded
		add(put(prng.Pick(r, eps), append(flows(r.Range(1, 2)), item{"um", prng.Pick(r, []string{"bad", "xjunk"})})))
		ops = append(ops, "managed", "tick", "managed")
	case 1: // remove, re-add within the delay
		add(put("apply_flows", flows(1)))
		add(put("configuration", flows(r.Range(1, 3))))
		ops = append(ops, "tick", "managed")
	case 2: // accepted replacement, delay, rolled-back push, delay
		add(put("apply_flows", flows(r.Range(1, 2))))
		ops = append(ops, "tick", "managed")
		add(put(prng.Pick(r, eps), append(flows(1), item{"um", "bad"})))
		ops = append(ops, "tick", "managed")
	default: // refused before any switch, then an accepted one
		add(put(prng.Pick(r, eps), append(flows(1), item{"f/e.yaml", "bad"})))
		ops = append(ops, "tick", "managed")
		add(put(prng.Pick(r, eps), flows(r.Range(1, 2))))
		ops = append(ops, "managed", "tick", "managed")
	}
	return ops
}

// policies mode: sequences of pushes / reverts, with the proxy refusing the admin calls of some of them.
func genPolicies(r *prng.R) []string {
	ops := []string{fmt.Sprintf("pinit k=%d", r.Range(0, 9)), "pstate"}
	n := r.Range(2, 6)
	for i := 0; i < n; i++ {
		fault := prng.Pick(r, []string{"none", "none", "ha"})
		switch r.Intn(8) {
		case 0:
			ops = append(ops, "ppush k="+prng.Pick(r, []string{"invalid", "badyaml"})+" fault="+fault)
		case 1:
			ops = append(ops, "prevert to="+prng.Pick(r, []string{"last", "diag"})+" fault="+fault)
		default:
			ops = append(ops, fmt.Sprintf("ppush k=%d fault=%s", r.Range(0, 9), fault))
		}
		ops = append(ops, "pstate")
	}
	return ops
}

func gen(r *prng.R, f proto.Flags, emit func(proto.Case)) {
	payloads := 90
	if f.Tier == "thorough" {
		payloads = 380
	}
	payloads *= f.Budget
	id := 0
	one := func(t tree, puts ...string) {
		ops := []string{t.line(), "ls", "probe " + probeSet}
		for _, p := range puts {
			if strings.HasPrefix(p, "hold ") {
				ops = append(ops, p) // nothing to look at yet: the push is parked
				continue
			}
			ops = append(ops, p, "ls", "probe "+probeSet)
		}
		id++
		emit(proto.Case{ID: fmt.Sprintf("g%d", id), Ops: ops})
	}
	histories := 80
	if f.Tier == "thorough" {
		histories = 1500
	}
	for k := 0; k < histories*f.Budget; k++ {
		rr := r.Fork()
		t := genTree(rr)
		one(t, genHistory(rr, t, k%5)...)
	}
	pol := 60
	if f.Tier == "thorough" {
		pol = 1000
	}
	for k := 0; k < pol*f.Budget; k++ {
		rr := r.Fork()
		id++
		emit(proto.Case{ID: fmt.Sprintf("g%d", id), Ops: genPolicies(rr)})
	}
	delayed := 100
	if f.Tier == "thorough" {
		delayed = 700
	}
	for k := 0; k < delayed*f.Budget; k++ {
		rr := r.Fork()
		t := genTree(rr)
		ops := append([]string{t.line(), "ls", "probe " + probeSet, "managed"}, genDelayed(rr, t, k)...)
		id++
		emit(proto.Case{ID: fmt.Sprintf("g%d", id), Ops: ops})
	}
	races := 80
	if f.Tier == "thorough" {
		races = 1200
	}
	for k := 0; k < races*f.Budget; k++ {
		rr := r.Fork()
		t := genTree(rr)
		one(t, genRace(rr, t, k)...)
	}
	for k := 0; k < payloads; k++ {
		rr := r.Fork()
		t := genTree(rr)
		shape := k % nShapes
		if rr.Chance(30) {
			shape = shValid
		}
		items := genPayload(rr, t, shape)
		for _, ep := range []string{"configuration", "apply_flows"} {
			if ep == "apply_flows" && f.Tier != "thorough" && k%2 == 1 {
				continue
			}
			corder := prng.Pick(rr, []string{"g,um", "um,g"})
			for _, fault := range faultPositions(rr, ep, t, items) {
				one(t, putLine(ep, "PUT", "items", items, fault, rr.Chance(50), corder))
			}
		}
		// malformed stream, wrong method, two requests in a row
		switch k % 6 {
		case 0:
			one(t, putLine("configuration", "PUT", "badjson", nil, "none", rr.Bool(), "g,um"))
			one(t, putLine("apply_flows", "PUT", "null", nil, "none", rr.Bool(), "g,um"))
		case 1:
			one(t, putLine("apply_flows", "PUT", "badjson", nil, "none", rr.Bool(), "g,um"))
			one(t, putLine("configuration", "PUT", "null", nil, "save:f/a.yaml", rr.Bool(), "g,um"))
		case 2:
			one(t, putLine(prng.Pick(rr, []string{"configuration", "apply_flows"}), prng.Pick(rr, []string{"GET", "POST"}),
				"items", items, "none", rr.Bool(), "g,um"))
		case 3:
			items2 := genPayload(rr, t, rr.Intn(nShapes))
			one(t, putLine("configuration", "PUT", "items", items, prng.Pick(rr, faultPositions(rr, "configuration", t, items)), rr.Bool(), "g,um"),
				putLine(prng.Pick(rr, []string{"configuration", "apply_flows"}), "PUT", "items", items2, "none", rr.Bool(), "um,g"))
		case 4:
			one(t, "put ep=configuration m=PUT body=items items=g:g1,f/a.yaml:v1 fault=none gate=0 corder=g,um probes=a",
				"put ep=nowhere m=PUT body=items items=%e fault=none gate=0 corder=g,um probes=a")
		}
	}
}
