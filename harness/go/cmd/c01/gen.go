package main

import (
	"fmt"
	"sort"
	"strings"

	"verif/harness/internal/prng"
	"verif/harness/internal/proto"
)

const sec = int64(1_000_000_000)

type genQuota struct {
	quotaCfg
	depth int
	start int64 // generator's guess of the current window start (ns, second-truncated); -1 = none yet
}

var (
	maxes = []int64{1, 1, 2, 2, 3, 5}
	wins  = []int64{1 * sec, 1 * sec, 2 * sec, 3 * sec, 60 * sec, 120 * sec, 3600 * sec, 7200 * sec,
		86400 * sec, 2 * 86400 * sec, 30 * 86400 * sec, 60 * 86400 * sec}
)

func genForest(r *prng.R, n int) []*genQuota {
	var qs []*genQuota
	for i := 0; i < n; i++ {
		q := &genQuota{quotaCfg: quotaCfg{id: i, parent: -1, max: prng.Pick(r, maxes), win: prng.Pick(r, wins), gh: -1, cc: -1, pct: -1}, depth: 1, start: -1}
		if i > 0 && r.Chance(70) {
			var cands []int
			for _, p := range qs {
				if p.depth < 3 {
					cands = append(cands, p.id)
				}
			}
			if len(cands) > 0 {
				q.parent = prng.Pick(r, cands)
				q.depth = qs[q.parent].depth + 1
			}
		}
		if r.Chance(40) {
			q.gh = r.Intn(2)
		}
		if r.Chance(25) { // fixed_window_custom_counter: charged by the value of header x-c<cc>
			q.cc = r.Intn(2)
			q.max = prng.Pick(r, []int64{1, 3, 5, 9})
		}
		if q.parent >= 0 && r.Chance(25) { // allocation_percentage child: the loader copies the parent's strategy
			p := qs[q.parent]
			q.pct = prng.Pick(r, []int{1, 10, 33, 50, 60, 100})
			q.max, q.win, q.gh, q.cc = p.max*int64(q.pct)/100, p.win, p.gh, p.cc
		}
		if q.pct < 0 { // write the window in any unit of the configuration format that fits (second … month)
			var fit []string
			for _, u := range []string{"second", "minute", "hour", "day", "month"} {
				if q.win%unitNs[u] == 0 && q.win/unitNs[u] <= 1000000 {
					fit = append(fit, u)
				}
			}
			q.wu = prng.Pick(r, fit)
		}
		if q.pct < 0 && r.Chance(20) { // optional spillover block (inert in this code base)
			q.sp = int64(r.Range(1, 10))
		}
		qs = append(qs, q)
	}
	return qs
}

func quotaLine(q quotaCfg) string {
	opt := func(v int) string {
		if v < 0 {
			return "-"
		}
		return fmt.Sprint(v)
	}
	if q.pct >= 0 {
		return fmt.Sprintf("quota id=%d parent=%s pct=%d", q.id, opt(q.parent), q.pct)
	}
	sp := ""
	if q.sp > 0 {
		sp = fmt.Sprintf(" sp=%d", q.sp)
	}
	if q.wu != "" {
		sp += " wu=" + q.wu
	}
	if q.cc >= 0 {
		return fmt.Sprintf("quota id=%d parent=%s max=%d win=%d gh=%s cc=%d%s", q.id, opt(q.parent), q.max, q.win, opt(q.gh), q.cc, sp)
	}
	return fmt.Sprintf("quota id=%d parent=%s max=%d win=%d gh=%s%s", q.id, opt(q.parent), q.max, q.win, opt(q.gh), sp)
}

func chainOf(qs []*genQuota, q int) []*genQuota {
	var c []*genQuota
	for q >= 0 {
		c = append(c, qs[q])
		q = qs[q].parent
	}
	return c
}

var hdrChoices = []string{"-", "0:1", "0:2", "0:d", "1:1", "0:1,1:1", "0:1,1:2", "0:2,1:d"}

// nextTime picks the next op instant: mostly at/around the end of the current window of one of the
// quotas of the chain (exactly on, +-1 ns, +-1 s, and relative to the untruncated first arrival),
// otherwise a small step inside the window.
func nextTime(r *prng.R, now int64, chain []*genQuota) int64 {
	t := now
	switch c := r.Intn(100); {
	case c < 30:
		// same instant
	case c < 45:
		t = now + int64(r.Intn(3))*1 + int64(r.Intn(2))*int64(r.Intn(400_000_000))
	case c < 55:
		t = now + int64(r.Range(1, 1500))*1_000_000
	case c < 63:
		// a fraction of a window of the chain after its start (where a wrong unit conversion - seconds per
		// minute, hours per day, days per month - would put the end of the window), or that far from now
		q := prng.Pick(r, chain)
		base := q.start
		if base < 0 || r.Chance(30) {
			base = now
		}
		t = base + q.win/prng.Pick(r, []int64{60, 30, 24, 12, 7, 2}) + prng.Pick(r, []int64{0, 1, sec, -sec, 3600 * sec})
	default:
		q := prng.Pick(r, chain)
		base := q.start
		if base < 0 {
			base = now
		}
		if r.Chance(15) {
			base = now // boundary measured from the (untruncated) current instant
		}
		b := base + q.win
		t = b + prng.Pick(r, []int64{0, 0, -1, 1, -sec, sec, -sec + 1, sec - 1, int64(r.Intn(1_000_000_000)), -int64(r.Intn(1_000_000_000))})
	}
	if t < now {
		t = now
	}
	return t
}

// noteArrival keeps the generator's guess of the window starts (greedy grid, groups lumped together).
func noteArrival(chain []*genQuota, t int64) {
	for _, q := range chain {
		if q.start < 0 || t-q.start >= q.win {
			q.start = (t / sec) * sec
		}
	}
}

type pending struct {
	q     int
	r     int
	hdrs  string
	costs string
	prog  []string
}

// texts of a counter-value header: small values, and the glue cases (absent, empty, non-numeric, signed,
// negative, zero, larger than any limit, int64 limits)
var costTexts = []string{"1", "1", "2", "2", "3", "1", "2", "0", "4", "10", "-1", "-5", "+2", "abc", "%201", "1.0", "%e",
	"007", "9223372036854775807", "9223372036854775808", "-9223372036854775808"}

func genCosts(r *prng.R, chain []*genQuota) string {
	var parts []string
	seen := map[int]bool{}
	for _, q := range chain {
		if q.cc >= 0 && !seen[q.cc] {
			seen[q.cc] = true
			if r.Chance(8) {
				continue // header absent
			}
			parts = append(parts, fmt.Sprintf("%d:%s", q.cc, prng.Pick(r, costTexts)))
		}
	}
	if len(parts) == 0 {
		return ""
	}
	return " costs=" + strings.Join(parts, ",")
}

// genDeepChain: a hierarchy of depth 3-4 (org > team > [unit >] user) whose upper ancestor has a small limit
// and a short window (fills and re-opens) while the lower windows are long and stay open.
func genDeepChain(r *prng.R) []*genQuota {
	depth := r.Range(3, 4)
	var qs []*genQuota
	for i := 0; i < depth; i++ {
		q := &genQuota{quotaCfg: quotaCfg{id: i, parent: i - 1, gh: -1, cc: -1, pct: -1}, depth: i + 1, start: -1}
		switch {
		case i == 0:
			q.max, q.win = prng.Pick(r, []int64{1, 1, 2}), prng.Pick(r, []int64{1 * sec, 1 * sec, 2 * sec})
		case i == depth-1:
			q.max, q.win = prng.Pick(r, []int64{2, 3, 5}), prng.Pick(r, []int64{60 * sec, 120 * sec, 3600 * sec})
		default:
			q.max, q.win = prng.Pick(r, []int64{3, 20, 100}), prng.Pick(r, []int64{60 * sec, 3600 * sec})
		}
		if i == depth-1 && r.Chance(30) {
			q.gh = 0
		}
		qs = append(qs, q)
	}
	return qs
}

func genCase(r *prng.R, id string, level int, big bool) proto.Case {
	return genCaseX(r, id, level, big, false)
}

func genCaseX(r *prng.R, id string, level int, big bool, deep bool) proto.Case {
	nq := r.Range(1, 4)
	var qs []*genQuota
	if deep {
		qs = genDeepChain(r)
		nq = len(qs)
	} else {
		qs = genForest(r, nq)
	}
	var ops []string
	for _, q := range qs {
		ops = append(ops, quotaLine(q.quotaCfg))
	}
	t0 := int64(1_700_000_000)*sec + int64(r.Intn(1000))*sec
	switch r.Intn(4) {
	case 0: // on a second boundary
	case 1:
		t0 += int64(r.Intn(1_000_000_000))
	case 2:
		t0 += 999_999_999
	default:
		t0 += 500_000_000
	}
	startIdx := len(ops)
	ops = append(ops, fmt.Sprintf("start level=%d t=%d", level, t0))
	mode := r.Intn(100) // <35 sequential limiter calls, <80 interleaved regular, else irregular
	if level == 2 {
		mode = 0
	}
	nreq := r.Range(3, 14)
	if big {
		nreq = r.Range(8, 30)
	}
	// targets: favour one or two quotas (and their groups) so that limits are actually reached
	targets := []int{r.Intn(nq)}
	if r.Chance(50) {
		targets = append(targets, r.Intn(nq))
	}
	if deep {
		targets = []int{nq - 1} // the deepest quota is the one the requests name
	}
	hdrPool := []string{prng.Pick(r, hdrChoices)}
	if r.Chance(50) {
		hdrPool = append(hdrPool, prng.Pick(r, hdrChoices))
	}
	var pend []*pending
	for i := 0; i < nreq; i++ {
		p := &pending{q: prng.Pick(r, targets), r: i + 1, hdrs: prng.Pick(r, hdrPool)}
		p.costs = genCosts(r, chainOf(qs, p.q))
		if r.Chance(45) { // a body of any shape; what is counted does not depend on it
			p.costs += fmt.Sprintf(" body=%d", r.Range(1, 6))
		}
		switch {
		case mode < 35:
			p.prog = []string{"req"}
		case mode < 80:
			switch c := r.Intn(10); {
			case c < 6:
				p.prog = []string{"inc", "allowed"}
			case c < 8:
				p.prog = []string{"req"}
			case c < 9:
				p.prog = []string{"inc", "dec", "allowed"}
			default:
				p.prog = []string{"inc", "allowed", "allowed"}
			}
		default:
			p.prog = prng.Pick(r, [][]string{{"inc", "allowed"}, {"inc", "inc", "allowed"}, {"inc", "allowed", "inc", "allowed"},
				{"req", "req"}, {"allowed", "inc", "allowed"}, {"inc", "dec", "inc", "allowed"}, {"req", "allowed"}, {"inc", "req"}})
		}
		pend = append(pend, p)
	}
	now := t0
	window := r.Range(1, 4) // how many requests are in flight at once
	if mode < 35 {
		window = 1
	}
	for len(pend) > 0 {
		k := r.Intn(min(window, len(pend)))
		p := pend[k]
		ch := chainOf(qs, p.q)
		if deep && r.Chance(85) {
			now = nextTime(r, now, ch[len(ch)-1:]) // follow the short window of the top ancestor
		} else {
			now = nextTime(r, now, ch)
		}
		kind := p.prog[0]
		p.prog = p.prog[1:]
		if kind == "inc" || kind == "req" {
			noteArrival(ch, now)
		}
		costs := p.costs
		if mode >= 80 && r.Chance(10) { // irregular: a call of the same request with other header values
			costs = genCosts(r, ch)
		}
		ops = append(ops, fmt.Sprintf("%s q=%d r=%d t=%d hdrs=%s%s", kind, p.q, p.r, now, p.hdrs, costs))
		if len(p.prog) == 0 {
			pend = append(pend[:k], pend[k+1:]...)
		}
		if level == 1 && r.Chance(12) {
			q := prng.Pick(r, ch)
			ops = append(ops, fmt.Sprintf("counters q=%d t=%d groups=0,1,2", q.id, now))
		}
	}
	if level == 2 {
		// which quotas are named by a user flow: all of them / only the targets (their ancestors get their
		// system flow switched off by the engine, other quotas keep a live QuotaProcessorInc) / a random subset
		lim := ""
		switch c := r.Intn(10); {
		case deep || c < 4:
			seen := map[int]bool{}
			var ids []string
			for _, t := range targets {
				if !seen[t] {
					seen[t] = true
					ids = append(ids, fmt.Sprint(t))
				}
			}
			sort.Strings(ids)
			lim = " lim=" + strings.Join(ids, ",")
		case c < 6:
			var ids []string
			for i := 0; i < nq; i++ {
				if r.Chance(50) || i == targets[0] {
					ids = append(ids, fmt.Sprint(i))
				}
			}
			lim = " lim=" + strings.Join(ids, ",")
		}
		ops[startIdx] += lim
		// request-rewriting processors before / after the Limiter in the user flows
		if fv := r.Intn(4); fv > 0 {
			ops[startIdx] += fmt.Sprintf(" fv=%d", fv)
		}
	}
	return proto.Case{ID: id, Ops: ops}
}

// malformed stream: the glue (unknown quota, ops before start, wrong level, bad configuration).
func genMalformed(r *prng.R, id string) proto.Case {
	t := int64(1_700_000_000) * sec
	var ops []string
	switch r.Intn(5) {
	case 0:
		ops = []string{"quota id=0 parent=- max=2 win=1000000000 gh=-", fmt.Sprintf("req q=0 r=1 t=%d hdrs=-", t),
			fmt.Sprintf("start level=1 t=%d", t), fmt.Sprintf("req q=3 r=1 t=%d hdrs=-", t), fmt.Sprintf("req q=0 r=1 t=%d hdrs=-", t)}
	case 1:
		ops = []string{"quota id=0 parent=- max=2 win=1500000000 gh=-", fmt.Sprintf("start level=1 t=%d", t), fmt.Sprintf("req q=0 r=1 t=%d hdrs=-", t)}
	case 2:
		ops = []string{"quota id=0 parent=0 max=2 win=1000000000 gh=-", fmt.Sprintf("start level=1 t=%d", t), fmt.Sprintf("inc q=0 r=1 t=%d hdrs=-", t)}
	case 3:
		ops = []string{"quota id=1 parent=- max=2 win=1000000000 gh=-", "quota id=0 parent=- max=0 win=1000000000 gh=-",
			fmt.Sprintf("start level=2 t=%d", t), fmt.Sprintf("req q=0 r=1 t=%d hdrs=-", t)}
	default:
		ops = []string{"quota id=0 parent=- max=1 win=1000000000 gh=0", fmt.Sprintf("start level=2 t=%d", t),
			fmt.Sprintf("inc q=0 r=1 t=%d hdrs=0:1", t), fmt.Sprintf("req q=0 r=x t=%d hdrs=0:1", t), fmt.Sprintf("req q=0 r=2 t=%d hdrs=0:0", t),
			fmt.Sprintf("req q=0 r=3 t=%d hdrs=0:1", t), fmt.Sprintf("counters q=0 t=%d groups=1", t), "frobnicate"}
	}
	return proto.Case{ID: id, Ops: ops}
}

func gen(r *prng.R, f proto.Flags, emit func(proto.Case)) {
	nL1, nL2 := 400, 40
	if f.Tier == "thorough" {
		nL1, nL2 = 6000, 400
	}
	nL1 *= f.Budget
	nL2 *= f.Budget
	id := 0
	for k := 0; k < nL1; k++ {
		id++
		emit(genCase(r.Fork(), fmt.Sprintf("a%d", id), 1, k%10 == 0))
		if k%12 == 0 {
			id++
			emit(genMalformed(r.Fork(), fmt.Sprintf("m%d", id)))
		}
	}
	for k := 0; k < nL2; k++ {
		id++
		emit(genCase(r.Fork(), fmt.Sprintf("e%d", id), 2, k%5 == 0))
	}
	// deep hierarchies (3-4 levels) named at the deepest level: through the engine and at the API
	for k := 0; k < nL2/2; k++ {
		id++
		emit(genCaseX(r.Fork(), fmt.Sprintf("d%d", id), 2, true, true))
		if k%4 == 0 {
			id++
			emit(genCaseX(r.Fork(), fmt.Sprintf("d%d", id), 1, true, true))
		}
	}
	// engine: a quota no flow names (live system-flow increment) next to the named one under a common
	// ancestor, generous limits, sparse traffic - the ancestor counts a request before the limiter's walk gets there
	for k := 0; k < nL2/4; k++ {
		id++
		emit(genLiveSibling(r.Fork(), fmt.Sprintf("s%d", id)))
	}
	if f.Tier == "thorough" {
		enumerate(emit)
	}
}

func genLiveSibling(r *prng.R, id string) proto.Case {
	big := []int64{3, 5, 9, 20}
	win := prng.Pick(r, []int64{60 * sec, 3600 * sec, 86400 * sec})
	qs := []quotaCfg{
		{id: 0, parent: -1, max: prng.Pick(r, big), win: win, gh: -1, cc: -1, pct: -1},
		{id: 1, parent: 0, max: prng.Pick(r, big), win: win, gh: -1, cc: -1, pct: -1},
		{id: 2, parent: 0, max: prng.Pick(r, big), win: prng.Pick(r, []int64{60 * sec, win}), gh: -1, cc: -1, pct: -1},
	}
	target := 1
	if r.Chance(40) { // the named quota one level further down
		qs = append(qs, quotaCfg{id: 3, parent: 1, max: prng.Pick(r, big), win: 60 * sec, gh: -1, cc: -1, pct: -1})
		target = 3
	}
	if r.Chance(30) {
		qs[0].gh = 0
	}
	var ops []string
	for _, q := range qs {
		ops = append(ops, quotaLine(q))
	}
	t := int64(1_700_000_000)*sec + int64(r.Intn(1000))*sec + int64(r.Intn(1_000_000_000))
	start := fmt.Sprintf("start level=2 t=%d lim=%d", t, target)
	if fv := r.Intn(4); fv > 0 {
		start += fmt.Sprintf(" fv=%d", fv)
	}
	ops = append(ops, start)
	n := r.Range(2, 8)
	for i := 1; i <= n; i++ {
		t += prng.Pick(r, []int64{0, 1, 300_000_000, sec, 7 * sec, 61 * sec})
		q := target
		if r.Chance(15) {
			q = 2 // a request on the URL of the quota no flow names: no limiter, always forwarded
		}
		ops = append(ops, fmt.Sprintf("req q=%d r=%d t=%d hdrs=%s", q, i, t, prng.Pick(r, []string{"-", "0:1", "0:1", "0:2"})))
	}
	return proto.Case{ID: id, Ops: ops}
}

// enumerate: every interleaving of 3 requests' (Inc, Allowed) calls on a 2-level chain x every
// non-decreasing assignment of boundary instants to the calls after the first.
func enumerate(emit func(proto.Case)) {
	type cfgT struct{ childMax, parentMax, childWin int64 }
	t0 := int64(1_700_000_000)*sec + 400_000_000
	start := int64(1_700_000_000) * sec
	win := 2 * sec
	inst := []int64{t0, start + win - sec, start + win - 1, start + win, start + win + 1, start + win + sec}
	// interleavings: sequences over {0,1,2} with each symbol twice
	var inter [][]int
	var rec func(cur []int, left [3]int)
	rec = func(cur []int, left [3]int) {
		if len(cur) == 6 {
			// requests are interchangeable: keep the interleavings whose first occurrences are in order
			first := [3]int{-1, -1, -1}
			for i, s := range cur {
				if first[s] < 0 {
					first[s] = i
				}
			}
			if first[0] < first[1] && first[1] < first[2] {
				inter = append(inter, append([]int(nil), cur...))
			}
			return
		}
		for s := 0; s < 3; s++ {
			if left[s] > 0 {
				l := left
				l[s]--
				rec(append(cur, s), l)
			}
		}
	}
	rec(nil, [3]int{2, 2, 2})
	// time assignments for calls 2..6: non-decreasing index sequences over inst
	var times [][]int
	var rt func(cur []int, lo int)
	rt = func(cur []int, lo int) {
		if len(cur) == 5 {
			times = append(times, append([]int(nil), cur...))
			return
		}
		for i := lo; i < len(inst); i++ {
			rt(append(cur, i), i)
		}
	}
	rt(nil, 0)
	id := 0
	for _, c := range []cfgT{{1, 2, win}, {2, 1, win}, {2, 2, win}, {1, 1, sec}, {2, 2, sec}} {
		for _, il := range inter {
			for ti, tm := range times {
				_ = ti
				ops := []string{
					fmt.Sprintf("quota id=0 parent=- max=%d win=%d gh=-", c.parentMax, win),
					fmt.Sprintf("quota id=1 parent=0 max=%d win=%d gh=-", c.childMax, c.childWin),
					fmt.Sprintf("start level=1 t=%d", t0),
				}
				seen := [3]int{}
				for k, s := range il {
					t := t0
					if k > 0 {
						t = inst[tm[k-1]]
					}
					kind := "inc"
					if seen[s] == 1 {
						kind = "allowed"
					}
					seen[s]++
					ops = append(ops, fmt.Sprintf("%s q=1 r=%d t=%d hdrs=-", kind, s+1, t))
				}
				id++
				emit(proto.Case{ID: fmt.Sprintf("x%d", id), Ops: ops})
			}
		}
	}
	// custom counter: every sequence of 4 header texts over a small alphabet, flat quota max 3 and a
	// child (max 3) under a fixed_window parent (max 2), all at one instant
	texts := []string{"0", "1", "2", "3", "4", "-1", "abc"}
	for _, hier := range []bool{false, true} {
		for m := 0; m < 7*7*7*7; m++ {
			var ops []string
			target := 0
			if hier {
				ops = append(ops, fmt.Sprintf("quota id=0 parent=- max=2 win=%d gh=-", win))
				ops = append(ops, fmt.Sprintf("quota id=1 parent=0 max=3 win=%d gh=- cc=0", win))
				target = 1
			} else {
				ops = append(ops, fmt.Sprintf("quota id=0 parent=- max=3 win=%d gh=- cc=0", win))
			}
			ops = append(ops, fmt.Sprintf("start level=1 t=%d", t0))
			x := m
			for k := 0; k < 4; k++ {
				ops = append(ops, fmt.Sprintf("req q=%d r=%d t=%d hdrs=- costs=0:%s", target, k+1, t0, texts[x%7]))
				x /= 7
			}
			id++
			emit(proto.Case{ID: fmt.Sprintf("y%d", id), Ops: ops})
		}
	}
	_ = sort.Ints
	_ = strings.Join
}
