// Harness for C01 (fixed-window quotas).
//
// Two levels of correspondence, selected per case by the `start` op:
//
//	level=1  the quota resource API: quota YAML written to a temp dir and loaded by the real
//	         resources.NewResourceManagement(); op lines inc/allowed/dec/req/counters are issued
//	         sequentially (generated interleavings of several requests' Inc/Allowed/Dec calls).
//	level=2  the engine: quota YAML + one user flow per quota (Limiter -> GenerateResponse on
//	         above_limit) loaded into a real streams.Stream; `req` = Stream.ExecuteFlow, verdict =
//	         presence of an EarlyResponseAction.
//
// Clock: the repo's MockClock installed through the context manager, set to the op's `t`.
package main

import (
	"context"
	"fmt"
	"os"
	"path/filepath"
	"sort"
	"strconv"
	"strings"
	"time"

	"lunar/engine/actions"
	messages "lunar/engine/messages"
	"lunar/engine/metrics"
	"lunar/engine/routing"
	"lunar/engine/streams"
	lunarcontext "lunar/engine/streams/lunar-context"
	publictypes "lunar/engine/streams/public-types"
	"lunar/engine/streams/resources"
	streamtypes "lunar/engine/streams/types"
	"lunar/engine/utils/environment"
	"lunar/toolkit-core/clock"
	contextmanager "lunar/toolkit-core/context-manager"

	"github.com/negasus/haproxy-spoe-go/message"
	"github.com/negasus/haproxy-spoe-go/payload/kv"
	"github.com/negasus/haproxy-spoe-go/request"
	"github.com/rs/zerolog"

	"verif/harness/internal/proto"
)

const rule = "fixed-window quota forests (depth<=3, grouped/ungrouped) x arrival schedules clustered on window boundaries; " +
	"non-trivial = at least one request admitted and one refused in the case; distinct by (ops, answers)"

const host = "c01.test"

type quotaCfg struct {
	id, parent int // parent = -1: root
	max        int64
	win        int64 // ns
	gh         int   // group-by header index, -1 = none
	cc         int   // counter-value header index (fixed_window_custom_counter), -1 = fixed_window
	wu         string // interval_unit to write the window with (`wu=`), "" = largest fitting unit
	sp         int64 // spillover.max of the optional `spillover` block, 0 = no block
	pct        int   // allocation_percentage child (max/win/gh/cc copied from the parent by the loader), -1 = none
}

func parseNat(s string) (int64, bool) {
	if s == "" || len(s) > 19 {
		return 0, false
	}
	for _, c := range s {
		if c < '0' || c > '9' {
			return 0, false
		}
	}
	n, err := strconv.ParseInt(s, 10, 64)
	return n, err == nil
}

// kvI: decimal natural; kvOpt additionally accepts "-" (= -1).
func kvI(w []string, k string) (int64, bool) {
	s, ok := proto.KV(w, k)
	if !ok {
		return 0, false
	}
	return parseNat(s)
}

func kvOpt(w []string, k string) (int64, bool) {
	s, ok := proto.KV(w, k)
	if !ok {
		return 0, false
	}
	if s == "-" {
		return -1, true
	}
	return parseNat(s)
}

func parseQuota(w []string) (quotaCfg, bool) {
	id, ok1 := kvI(w, "id")
	par, ok2 := kvOpt(w, "parent")
	if !(ok1 && ok2) {
		return quotaCfg{}, false
	}
	if _, has := proto.KV(w, "pct"); has { // percentage child: `quota id= parent= pct=`
		pct, ok := kvI(w, "pct")
		if !ok {
			return quotaCfg{}, false
		}
		return quotaCfg{id: int(id), parent: int(par), gh: -1, cc: -1, pct: int(pct)}, true
	}
	mx, ok3 := kvI(w, "max")
	win, ok4 := kvI(w, "win")
	gh, ok5 := kvOpt(w, "gh")
	cc := int64(-1)
	if _, has := proto.KV(w, "cc"); has {
		var ok bool
		if cc, ok = kvOpt(w, "cc"); !ok {
			return quotaCfg{}, false
		}
	}
	if !(ok3 && ok4 && ok5) {
		return quotaCfg{}, false
	}
	sp := int64(0)
	if _, has := proto.KV(w, "sp"); has {
		var ok bool
		if sp, ok = kvI(w, "sp"); !ok || sp < 1 {
			return quotaCfg{}, false
		}
	}
	wu, _ := proto.KV(w, "wu")
	if _, known := unitNs[wu]; wu != "" && (!known || win%unitNs[wu] != 0) {
		return quotaCfg{}, false
	}
	return quotaCfg{id: int(id), parent: int(par), max: mx, win: win, gh: int(gh), cc: int(cc), pct: -1, sp: sp, wu: wu}, true
}

var unitNs = map[string]int64{
	"second": int64(time.Second), "minute": 60 * int64(time.Second), "hour": 3600 * int64(time.Second),
	"day": 24 * 3600 * int64(time.Second), "month": 30 * 24 * 3600 * int64(time.Second),
}

// windowYAML: interval and interval_unit for a window of `win` ns.  `unit` (the `wu=` of the quota line) picks
// the unit when the window is a whole number of them; otherwise the largest unit that divides the window.
func windowYAML(win int64, unit string) (int64, string) {
	if u, ok := unitNs[unit]; ok && win%u == 0 {
		return win / u, unit
	}
	for _, name := range []string{"month", "day", "hour", "minute"} {
		if win%unitNs[name] == 0 {
			return win / unitNs[name], name
		}
	}
	return win / int64(time.Second), "second"
}

// rootOf: the root quota of the tree a quota belongs to.
func rootOf(qs []quotaCfg, i int) int {
	for qs[i].parent >= 0 && qs[i].parent < i {
		i = qs[i].parent
	}
	return i
}

func quotaYAML(qs []quotaCfg) string {
	var b strings.Builder
	// validation accepts a `spillover` block only when the root of the tree declares `monthly_renewal`
	renew := map[int]bool{}
	for i, q := range qs {
		if q.sp > 0 {
			renew[rootOf(qs, i)] = true
		}
	}
	entry := func(q quotaCfg, child bool) {
		fmt.Fprintf(&b, "  - id: q%d\n", q.id)
		if child {
			fmt.Fprintf(&b, "    parent_id: q%d\n", q.parent)
		} else {
			fmt.Fprintf(&b, "    filter:\n      url: %s/*\n", host)
		}
		if q.pct >= 0 {
			fmt.Fprintf(&b, "    strategy:\n      allocation_percentage: %d\n", q.pct)
			return
		}
		iv, unit := windowYAML(q.win, q.wu)
		kind := "fixed_window"
		if q.cc >= 0 {
			kind = "fixed_window_custom_counter"
		}
		fmt.Fprintf(&b, "    strategy:\n      %s:\n        max: %d\n        interval: %d\n        interval_unit: %s\n", kind, q.max, iv, unit)
		if q.gh >= 0 {
			fmt.Fprintf(&b, "        group_by_header: x-g%d\n", q.gh)
		}
		if q.cc >= 0 {
			fmt.Fprintf(&b, "        counter_value_path: '$.request.headers[\"x-c%d\"]'\n", q.cc)
		}
		if q.sp > 0 {
			fmt.Fprintf(&b, "        spillover:\n          max: %d\n", q.sp)
		}
		if renew[q.id] {
			b.WriteString("        monthly_renewal:\n          day: 1\n          hour: 0\n          minute: 0\n          timezone: UTC\n")
		}
	}
	b.WriteString("quotas:\n")
	for _, q := range qs {
		if q.parent < 0 {
			entry(q, false)
		}
	}
	hasChild := false
	for _, q := range qs {
		if q.parent >= 0 {
			if !hasChild {
				b.WriteString("internal_limits:\n")
				hasChild = true
			}
			entry(q, true)
		}
	}
	return b.String()
}

// flowYAML: the user flow of quota q.  Variant bits: 1 = a request-rewriting processor (TransformAPICall) runs
// before the Limiter, 2 = one runs after the Limiter's below_limit branch.  Whatever else the flow does to the
// request, an above-limit request must leave the engine with the early response.
func flowYAML(q int, variant int) string {
	n := fmt.Sprintf("f%d", q)
	var b strings.Builder
	fmt.Fprintf(&b, "name: flow_%s\nfilter:\n  url: %s/%s\nprocessors:\n", n, host, n)
	fmt.Fprintf(&b, "  Lim_%s:\n    processor: Limiter\n    parameters:\n      - key: quota_id\n        value: q%d\n", n, q)
	fmt.Fprintf(&b, "  Gen_%s:\n    processor: GenerateResponse\n    parameters:\n      - key: status\n        value: 429\n"+
		"      - key: body\n        value: Too Many Requests\n      - key: Content-Type\n        value: text/plain\n", n)
	transform := func(name, hdr string) {
		fmt.Fprintf(&b, "  %s_%s:\n    processor: TransformAPICall\n    parameters:\n      - key: set\n        value:\n"+
			"          $.request.headers.%s: v\n", name, n, hdr)
	}
	if variant&1 != 0 {
		transform("Pre", "x-pre")
	}
	if variant&2 != 0 {
		transform("Post", "x-post")
	}
	conn := func(from, cond, to string) {
		b.WriteString("    - from:\n")
		if from == "" {
			b.WriteString("        stream:\n          name: globalStream\n          at: start\n")
		} else {
			fmt.Fprintf(&b, "        processor:\n          name: %s\n", from)
			if cond != "" {
				fmt.Fprintf(&b, "          condition: %s\n", cond)
			}
		}
		b.WriteString("      to:\n")
		if to == "" {
			b.WriteString("        stream:\n          name: globalStream\n          at: end\n")
		} else {
			fmt.Fprintf(&b, "        processor:\n          name: %s\n", to)
		}
	}
	lim, gen := "Lim_"+n, "Gen_"+n
	b.WriteString("flow:\n  request:\n")
	if variant&1 != 0 {
		conn("", "", "Pre_"+n)
		conn("Pre_"+n, "", lim)
	} else {
		conn("", "", lim)
	}
	conn(lim, "above_limit", gen)
	if variant&2 != 0 {
		conn(lim, "below_limit", "Post_"+n)
		conn("Post_"+n, "", "")
	} else {
		conn(lim, "below_limit", "")
	}
	b.WriteString("  response:\n")
	conn(gen, "", "")
	conn("", "", "")
	return b.String()
}

type world struct {
	level int
	rm    *resources.ResourceManagement
	st    *streams.Stream
	handler routing.MessageHandler
	clk   *clock.MockClock
	known map[int]bool
	cur   int64
	dir   string
}

func (w *world) setTime(t int64) {
	if t != w.cur {
		w.clk.Set(time.Unix(0, t).UTC())
		w.cur = t
	}
}

func build(qs []quotaCfg, level int, t0 int64, lim map[int]bool, variant int) (*world, error) {
	dir, err := os.MkdirTemp("", "c01-")
	if err != nil {
		return nil, err
	}
	for _, d := range []string{"quotas", "flows", "path_params"} {
		if err := os.MkdirAll(filepath.Join(dir, d), 0o755); err != nil {
			return nil, err
		}
	}
	if err := os.WriteFile(filepath.Join(dir, "quotas", "quotas.yaml"), []byte(quotaYAML(qs)), 0o644); err != nil {
		return nil, err
	}
	os.Setenv("LUNAR_PROXY_QUOTAS_DIRECTORY", filepath.Join(dir, "quotas"))
	os.Setenv("LUNAR_FLOWS_PATH_PARAM_DIR", filepath.Join(dir, "path_params"))
	os.Setenv("LUNAR_FLOWS_PATH_PARAM_CONFIG", filepath.Join(dir, "path_params_generated.yaml"))
	environment.SetStreamsFlowsDirectory(filepath.Join(dir, "flows"))
	repo := os.Getenv("VERIF_REPO")
	if repo == "" {
		repo = "/repo"
	}
	environment.SetProcessorsDirectory(filepath.Join(repo, "proxy/src/services/lunar-engine/streams/processors/registry"))
	clk := contextmanager.Get().SetMockClock().GetMockClock()
	clk.Set(time.Unix(0, t0).UTC())
	w := &world{level: level, clk: clk, known: map[int]bool{}, cur: t0, dir: dir}
	for _, q := range qs {
		w.known[q.id] = true
	}
	if level == 1 {
		rm, err := resources.NewResourceManagement()
		if err != nil {
			return w, err
		}
		w.rm = rm
		return w, nil
	}
	for _, q := range qs {
		if !lim[q.id] {
			continue // no user flow names this quota
		}
		if err := os.WriteFile(filepath.Join(dir, "flows", fmt.Sprintf("f%d.yaml", q.id)), []byte(flowYAML(q.id, variant)), 0o644); err != nil {
			return w, err
		}
	}
	st, err := streams.NewStream()
	if err != nil {
		return w, err
	}
	if err := st.Initialize(); err != nil {
		return w, err
	}
	w.st = st
	// the verdict is observed where it leaves the engine: the SPOE actions the real message handler of
	// routing answers HAProxy with (return_early_response = the request is NOT forwarded)
	contextmanager.Get().WithContext(context.Background())
	mm, _ := metrics.NewMetricManager()
	w.handler = routing.VerifHandlerForStream(st, mm)
	return w, nil
}

// spoeRequest: the lunar-on-request message HAProxy sends for a request.
func spoeRequest(q int, r string, hdrs map[string]string, body int) *request.Request {
	path := fmt.Sprintf("/f%d", q)
	var names []string
	for k := range hdrs {
		names = append(names, k)
	}
	sort.Strings(names)
	var hb strings.Builder
	for _, k := range names {
		hb.WriteString(k + ": " + hdrs[k] + "\r\n")
	}
	keyValues := kv.NewKV()
	keyValues.Add("id", r)
	keyValues.Add("sequence_id", r)
	method := "GET"
	if body > 0 {
		method = "POST"
	}
	keyValues.Add("method", method)
	keyValues.Add("scheme", "https")
	keyValues.Add("url", host+path)
	keyValues.Add("path", path)
	keyValues.Add("query", "")
	keyValues.Add("headers", hb.String())
	keyValues.Add("body", []byte(bodies[body]))
	return &request.Request{Messages: &message.Messages{{Name: "lunar-on-request", KV: keyValues}}}
}

// headers parses `i:v,i:v` strictly (v = d or a number >= 1); later entries override earlier ones.
func headers(spec string) (map[string]string, bool) {
	h := map[string]string{}
	if spec == "-" {
		return h, true
	}
	for _, kv := range strings.Split(spec, ",") {
		p := strings.Split(kv, ":")
		if len(p) != 2 {
			return nil, false
		}
		if _, ok := parseNat(p[0]); !ok {
			return nil, false
		}
		v := "default"
		if p[1] != "d" {
			n, ok := parseNat(p[1])
			if !ok || n < 1 {
				return nil, false
			}
			v = "g" + strconv.FormatInt(n, 10)
		}
		h["x-g"+strconv.FormatInt(mustNat(p[0]), 10)] = v
	}
	return h, true
}

func mustNat(s string) int64 { n, _ := parseNat(s); return n }

// addCosts parses `i:enc,i:enc` (enc = percent-encoded raw header value) into headers x-c<i>.
func addCosts(h map[string]string, spec string) bool {
	if spec == "-" {
		return true
	}
	for _, kv := range strings.Split(spec, ",") {
		p := strings.Split(kv, ":")
		if len(p) != 2 {
			return false
		}
		if _, ok := parseNat(p[0]); !ok {
			return false
		}
		h["x-c"+strconv.FormatInt(mustNat(p[0]), 10)] = proto.Dec(p[1])
	}
	return true
}

// bodies a request may carry (`body=<index>` on the op line).  What a quota counts is read from the headers,
// whatever the body is: empty, a JSON object, a JSON array, plain text, form-encoded, broken JSON, XML.
var bodies = []string{
	"",
	`{"user":"u1","items":[1,2,3]}`,
	`[1,2,{"a":"b"}]`,
	"hello quota",
	"a=1&b=two&c=%203",
	`{"user": "u1", "items": [1,2`,
	"<order><id>7</id></order>",
}

func apiStream(q int, r string, hdrs map[string]string, body int) publictypes.APIStreamI {
	path := fmt.Sprintf("/f%d", q)
	method := "GET"
	if body > 0 {
		method = "POST"
	}
	return streamtypes.NewRequestAPIStream(messages.OnRequest{
		ID: r, SequenceID: r, Method: method, Scheme: "https",
		URL: host + path, Path: path, Headers: hdrs, RawBody: []byte(bodies[body]),
	}, lunarcontext.NewMemoryState[[]byte]())
}

type countersI interface {
	GetQuotaGroupsCounters() map[string]int64
}

func exec(c proto.Case, o *proto.Out) []string {
	outs := make([]string, len(c.Ops))
	var qs []quotaCfg
	var w *world
	defer func() {
		if w != nil && w.dir != "" {
			os.RemoveAll(w.dir)
		}
	}()
	admits, refuses := 0, 0
	seenArr := map[string]bool{}
	arrHdr := map[string]string{}
	irregular := false
	var arrivals []int64
	for i, op := range c.Ops {
		f := strings.Fields(op)
		if len(f) == 0 {
			outs[i] = "bad-op"
			continue
		}
		switch f[0] {
		case "quota":
			q, ok := parseQuota(f)
			if !ok || w != nil || q.id != len(qs) {
				outs[i] = "bad-op"
				continue
			}
			qs = append(qs, q)
			outs[i] = "ok"
		case "start":
			lvl, ok := kvI(f, "level")
			t0, ok2 := kvI(f, "t")
			if !ok || !ok2 || w != nil || (lvl != 1 && lvl != 2) {
				outs[i] = "bad-op"
				continue
			}
			if !wellFormed(qs) {
				w = &world{level: int(lvl)}
				outs[i] = "err:cfg"
				continue
			}
			// lim=<id,id,…>: the quotas named by a user flow (Limiter); default: every quota
			lim := map[int]bool{}
			if ls, has := proto.KV(f, "lim"); has {
				okl := true
				for _, x := range strings.Split(ls, ",") {
					n, ok := parseNat(x)
					if !ok || int(n) >= len(qs) {
						okl = false
						break
					}
					lim[int(n)] = true
				}
				if !okl {
					outs[i] = "bad-op"
					continue
				}
			} else {
				for _, q := range qs {
					lim[q.id] = true
				}
			}
			// fv=<0..3>: flow variant (request-rewriting processors around the Limiter), level 2 only
			variant := int64(0)
			if _, has := proto.KV(f, "fv"); has {
				var okv bool
				if variant, okv = kvI(f, "fv"); !okv || variant > 3 {
					outs[i] = "bad-op"
					continue
				}
			}
			var err error
			w, err = build(qs, int(lvl), t0, lim, int(variant))
			if err != nil {
				if os.Getenv("VERIF_DEBUG") != "" {
					fmt.Fprintln(os.Stderr, "load error:", err)
				}
				outs[i] = "err:load"
				if w == nil {
					w = &world{}
				}
				w.rm, w.st = nil, nil
				continue
			}
			outs[i] = "ok"
			o.Count(fmt.Sprintf("level-%d", lvl))
		case "inc", "allowed", "dec", "req", "counters":
			q, ok1 := kvI(f, "q")
			t, ok2 := kvI(f, "t")
			if !ok1 || !ok2 {
				outs[i] = "bad-op"
				continue
			}
			if w == nil || (w.rm == nil && w.st == nil) {
				outs[i] = "err:nostart"
				continue
			}
			if f[0] == "counters" {
				outs[i] = doCounters(w, int(q), f, t)
				continue
			}
			rn, ok3 := kvI(f, "r")
			hs, ok4 := proto.KV(f, "hdrs")
			var hd map[string]string
			if ok4 {
				hd, ok4 = headers(hs)
			}
			if cs, has := proto.KV(f, "costs"); has && ok4 {
				ok4 = addCosts(hd, cs)
			}
			if !ok3 || !ok4 {
				outs[i] = "bad-op"
				continue
			}
			r := strconv.FormatInt(rn, 10)
			if !w.known[int(q)] {
				outs[i] = "err:noquota"
				continue
			}
			body := int64(0)
			if _, has := proto.KV(f, "body"); has {
				var okb bool
				if body, okb = kvI(f, "body"); !okb || int(body) >= len(bodies) {
					outs[i] = "bad-op"
					continue
				}
			}
			w.setTime(t)
			as := apiStream(int(q), "r"+r, hd, int(body))
			if f[0] == "inc" || f[0] == "req" {
				// input distribution: repeated arrivals of an id; arrivals relative to window boundaries
				if seenArr[r] {
					irregular = true
				}
				seenArr[r] = true
				arrHdr[r] = fmt.Sprint(hd)
				for qi := int(q); qi >= 0 && qi < len(qs); qi = qs[qi].parent {
					for _, t0 := range arrivals {
						switch d := t - (t0/int64(time.Second))*int64(time.Second) - effWin(qs, qi); {
						case d == 0:
							o.Count("arrival-exactly-on-window-end")
						case d == -1 || d == 1:
							o.Count("arrival-1ns-off-window-end")
						}
					}
				}
				arrivals = append(arrivals, t)
			}
			if f[0] == "allowed" || f[0] == "dec" {
				if ah, ok := arrHdr[r]; ok && ah != fmt.Sprint(hd) {
					irregular = true // a call of the request with other headers than its arrival
				}
			}
			if w.level == 2 {
				if f[0] != "req" {
					outs[i] = "err:level"
					continue
				}
				sreq := spoeRequest(int(q), "r"+r, hd, int(body))
				w.handler(sreq)
				refused := false
				for _, a := range sreq.Actions {
					if a.Name == actions.ReturnEarlyResponseActionName {
						if flag, ok := a.Value.(bool); ok && flag {
							refused = true
						}
					}
				}
				if refused {
					outs[i] = "refuse"
					refuses++
				} else {
					outs[i] = "pass"
					admits++
				}
				continue
			}
			qo, err := w.rm.GetQuota(fmt.Sprintf("q%d", q), "r"+r)
			if err != nil {
				outs[i] = "err:noquota"
				continue
			}
			switch f[0] {
			case "inc":
				if err := qo.Inc(as); err != nil {
					outs[i] = "err:inc"
				} else {
					outs[i] = "ok"
				}
			case "dec":
				if err := qo.Dec(as); err != nil {
					outs[i] = "err:dec"
				} else {
					outs[i] = "ok"
				}
			case "allowed":
				b, err := qo.Allowed(as)
				if err != nil {
					outs[i] = "err:allowed"
				} else {
					outs[i] = strconv.FormatBool(b)
					if b {
						admits++
					} else {
						refuses++
					}
				}
			case "req": // exactly the limiter processor's sequence
				if err := qo.Inc(as); err != nil {
					outs[i] = "err:inc"
					continue
				}
				b, err := qo.Allowed(as)
				if err != nil {
					outs[i] = "err:allowed"
				} else if b {
					outs[i] = "pass"
					admits++
				} else {
					outs[i] = "refuse"
					refuses++
				}
			}
		default:
			outs[i] = "bad-op"
		}
	}
	o.Count(fmt.Sprintf("quotas-%d", len(qs)))
	for _, q := range qs {
		if q.pct >= 0 {
			o.Count("quota-percentage-child")
		} else if q.cc >= 0 {
			o.Count("quota-custom-counter")
		} else {
			o.Count("quota-fixed-window")
		}
	}
	if irregular {
		o.Count("history-irregular(id-arrives-twice-or-headers-differ;diff-only)")
	} else {
		o.Count("history-regular(judged)")
	}
	if admits > 0 && refuses > 0 {
		o.NonTrivial(strings.Join(c.Ops, "|") + "#" + strings.Join(outs, "|"))
		o.Count("nontrivial")
	}
	for _, x := range outs {
		switch x {
		case "pass", "true":
			o.Count("verdict-admit")
		case "refuse", "false":
			o.Count("verdict-refuse")
		}
	}
	return outs
}

// counters q=<id> t=<ns> groups=<g,g,...>: the per-group values GetQuotaGroupsCounters() shows
// (0 for a group that has no quota object yet), in the order asked.
func doCounters(w *world, q int, f []string, t int64) string {
	if w.level != 1 {
		return "err:level"
	}
	if !w.known[q] {
		return "err:noquota"
	}
	gs, ok := proto.KV(f, "groups")
	if !ok {
		return "bad-op"
	}
	w.setTime(t)
	qo, err := w.rm.GetQuota(fmt.Sprintf("q%d", q), "")
	if err != nil {
		return "err:noquota"
	}
	ci, ok := qo.(countersI)
	if !ok {
		return "err:nocounters"
	}
	m := ci.GetQuotaGroupsCounters()
	var out []string
	for _, g := range strings.Split(gs, ",") {
		name := "default"
		if g != "0" {
			name = "g" + g
		}
		out = append(out, strconv.FormatInt(m[fmt.Sprintf("q%d_%s", q, name)], 10))
	}
	_ = sort.Strings
	return "c=" + strings.Join(out, ",")
}

// effWin: the window of a quota (a percentage child has its parent's).
func effWin(qs []quotaCfg, i int) int64 {
	for i >= 0 && i < len(qs) && qs[i].pct >= 0 {
		i = qs[i].parent
	}
	if i < 0 || i >= len(qs) {
		return 0
	}
	return qs[i].win
}

// wellFormed mirrors Spec.C01.wellFormed (what the loader's validation admits, parents first).
func wellFormed(qs []quotaCfg) bool {
	if len(qs) == 0 { // an empty quota file is rejected by the loader ("quota part is missing")
		return false
	}
	for i, q := range qs {
		if q.parent >= i {
			return false
		}
		if q.pct >= 0 { // allocation_percentage: validate gt=-1,lte=100; 0 means "no strategy" and fails to load
			if q.parent < 0 || q.pct < 1 || q.pct > 100 {
				return false
			}
			continue
		}
		if q.max < 1 || q.win < 1 || q.win%int64(time.Second) != 0 {
			return false
		}
	}
	return true
}

func main() {
	zerolog.SetGlobalLevel(zerolog.Disabled)
	proto.Main(proto.Harness{Rule: rule, Gen: gen, Exec: exec})
}
