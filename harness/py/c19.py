#!/usr/bin/env python3
"""
Harness for C19 (python3, standard library only).

Drives the REAL interceptor code of $VERIF_REPO (default /repo), loaded BY PATH from
  interceptors/lunar-py-interceptor/lunar_interceptor/src/lunar_interceptor/
    interceptor/{helpers,configuration,fail_safe,traffic_filter}.py
    interceptor/hooks/{const,hook,helpers,requests}.py
and the two wiring functions `_load_fail_safe` / `_build_traffic_filter_from_env_vars` cut out of
the real `lunar_interceptor/__init__.py` (the package itself cannot be imported: it needs yarl,
aiohttp, requests and performs a handshake at import).

The hooks are created and installed by the package's own wiring: `_initialize_hooks()` of the real
`__init__.py` -> real `Interceptor(...).set_hooks()` (interceptor/interceptor.py) -> every hook of the
real LUNAR_HOOKS (hooks/__init__.py: aiohttp, requests, tornado) on one shared FailSafe/TrafficFilter,
handshake through the first hook, `init_hooks()`.  A `call lib=<requests|aiohttp|tornado>` then enters
through the library's public entry point (Session.request / ClientSession._request /
AsyncHTTPClient.fetch).
Stand-ins (ours, minimal): modules `yarl` (class URL), `multidict`, and the three client libraries
`requests`, `aiohttp`, `tornado` with a scripted transport and EXCEPTION HIERARCHIES that mirror the
real ones (names and base classes); a gateway-leg failure can be of every class of the hierarchy
(`gw=exc:<lib>.<Class>`).
Patched names: `time` in fail_safe (virtual clock, ticks of 1/8 s), `gethostbyname` in
traffic_filter (DNS table of the case; entries `real:`/`unicode` call the real
socket.gethostbyname, `ip:` returns the address, `gaierror`/absent raise socket.gaierror exactly
as the real function was seen to do for unresolvable names in this sandbox; INJECTED resolver
faults: `oserror:emfile` / `oserror:enomem` raise a plain OSError with that errno - what
gethostbyname does when getaddrinfo reports EAI_SYSTEM, e.g. out of file descriptors -,
`herror` raises socket.herror, `timeout` raises socket.timeout; all are OSError subclasses).
Ops `call` go through the real requests hook; ops `decide` ask TrafficFilter.is_allowed alone.

CLI: -seed N -tier quick|thorough -out DIR -budget K [-replay FILE]
Writes DIR/ops.txt, DIR/impl.txt, DIR/stats.json (same contract as harness/go/internal/proto).
"""
import ast
import errno
import importlib.util
import json
import logging
import os
import socket
import sys
import types

REPO = os.environ.get("VERIF_REPO", "/repo")
SRC = os.path.join(REPO, "interceptors/lunar-py-interceptor/lunar_interceptor/src/lunar_interceptor")
TICKS_PER_SEC = 8
PROXY_HOST = "gw.lunar.test"
PROXY_PORT = 8000

RULE = ("event sequences (gateway success / failure by exception / failure by x-lunar-error header / "
        "application exception / excluded destination / clock advance) x settings (threshold, cool-down), "
        "and destination hosts x allow/block lists x DNS tables; non-trivial = the breaker opened at least once, "
        "or a destination was excluded by the filter, or the decision raised; distinct by (ops, answers)")

# ----------------------------------------------------------------------------- line protocol

SAFE = set("abcdefghijklmnopqrstuvwxyzABCDEFGHIJKLMNOPQRSTUVWXYZ0123456789._~:/{}*,=+@$-")


def enc(s):
    if s == "":
        return "%e"
    out = []
    for b in s.encode("utf-8", "surrogateescape"):
        c = chr(b)
        out.append(c if c in SAFE else "%%%02X" % b)
    return "".join(out)


def dec(s):
    if s == "%e":
        return ""
    out = bytearray()
    i = 0
    n = len(s)
    while i < n:
        if s[i] == "%" and i + 2 < n + 0 and i + 2 <= n - 1:
            try:
                out.append(int(s[i + 1:i + 3], 16))
                i += 3
                continue
            except ValueError:
                pass
        out += s[i].encode("utf-8")
        i += 1
    return out.decode("utf-8", "replace")


def kv(words, k):
    p = k + "="
    for w in words:
        if w.startswith(p):
            return w[len(p):]
    return None


class Out:
    def __init__(self, d):
        os.makedirs(d, exist_ok=True)
        self.dir = d
        self.fo = open(os.path.join(d, "ops.txt"), "w", buffering=1 << 20)
        self.fi = open(os.path.join(d, "impl.txt"), "w", buffering=1 << 20)
        self.cases = 0
        self.ops = 0
        self.nontriv = set()
        self.dist = {}
        self.samples = []
        self.extra = {}

    def count(self, k, n=1):
        self.dist[k] = self.dist.get(k, 0) + n

    def nontrivial(self, fp):
        self.nontriv.add(hash(fp))

    def case(self, cid, ops, outs):
        if len(ops) != len(outs):
            raise RuntimeError("harness bug: case %s: %d ops, %d answers" % (cid, len(ops), len(outs)))
        for l in ops:
            if "\n" in l or "\t" in l:
                raise RuntimeError("newline/tab in op line")
        for l in outs:
            if "\n" in l or "\t" in l:
                raise RuntimeError("newline/tab in answer line")
        self.cases += 1
        self.ops += 1 + len(ops)
        self.fo.write("case " + cid + "\n" + "".join(o + "\n" for o in ops))
        self.fi.write("case " + cid + "\n" + "".join(o + "\n" for o in outs))
        if len(self.samples) < 3 and 1 <= len(ops) < 40:
            self.samples.append({"case": cid, "ops": ["case " + cid] + ops, "impl": ["case " + cid] + outs})

    def close(self):
        self.fo.close()
        self.fi.close()
        st = {"evaluations": self.cases, "ops": self.ops, "distinct_nontrivial": len(self.nontriv),
              "rule": RULE, "distribution": dict(sorted(self.dist.items())), "samples": self.samples}
        st.update(self.extra)
        with open(os.path.join(self.dir, "stats.json"), "w") as f:
            json.dump(st, f, indent=1)


# ----------------------------------------------------------------------------- PRNG (splitmix64)

M64 = (1 << 64) - 1


class R:
    def __init__(self, seed):
        self.s = (seed * 0x9E3779B97F4A7C15 + 0x1234567) & M64

    def u64(self):
        self.s = (self.s + 0x9E3779B97F4A7C15) & M64
        z = self.s
        z = ((z ^ (z >> 30)) * 0xBF58476D1CE4E5B9) & M64
        z = ((z ^ (z >> 27)) * 0x94D049BB133111EB) & M64
        return z ^ (z >> 31)

    def intn(self, n):
        return self.u64() % n if n > 0 else 0

    def range(self, lo, hi):
        return lo + self.intn(hi - lo + 1)

    def chance(self, pct):
        return self.intn(100) < pct

    def pick(self, xs):
        return xs[self.intn(len(xs))]

    def fork(self):
        return R(self.u64())


# ----------------------------------------------------------------------------- stand-ins

class URL:
    """Minimal stand-in for yarl.URL: scheme://host[:port]/rest, host taken verbatim
    (brackets of an IPv6 literal removed), nothing decoded or lower-cased."""

    def __init__(self, url=None, _parts=None):
        if _parts is not None:
            self.scheme, self.host, self.port, self._rest = _parts
            return
        url = str(url)
        self.scheme, _, rest = url.partition("://")
        i = rest.find("/")
        netloc, self._rest = (rest, "") if i < 0 else (rest[:i], rest[i:])
        self.port = None
        if netloc.startswith("["):
            j = netloc.find("]")
            self.host = netloc[1:j]
            tail = netloc[j + 1:]
            if tail.startswith(":") and tail[1:].isdigit():
                self.port = int(tail[1:])
        else:
            h, sep, p = netloc.rpartition(":")
            if sep and p.isdigit() and ":" not in h:
                self.host, self.port = h, int(p)
            else:
                self.host = netloc
        if self.host == "":
            self.host = None

    def is_default_port(self):
        return self.port is None or self.port == {"http": 80, "https": 443}.get(self.scheme)

    def with_scheme(self, s):
        return URL(_parts=(s, self.host, self.port, self._rest))

    def with_host(self, h):
        return URL(_parts=(self.scheme, h, self.port, self._rest))

    def with_port(self, p):
        return URL(_parts=(self.scheme, self.host, p, self._rest))

    def __str__(self):
        h = "[%s]" % self.host if self.host and ":" in self.host else (self.host or "")
        return "%s://%s%s%s" % (self.scheme, h, "" if self.port is None else ":%d" % self.port, self._rest)


class AppGw(Exception):
    """An exception outside handle_on raised while talking to the gateway."""


class AppDirect(Exception):
    """An exception raised by the direct call to the provider."""


class CaseInsensitiveDict(dict):
    """requests.models.CaseInsensitiveDict / multidict.CIMultiDictProxy as far as the hooks use them."""

    def __init__(self, d=None):
        super().__init__()
        for k, v in (d or {}).items():
            self[k.lower()] = v

    def __contains__(self, k):
        return dict.__contains__(self, k.lower())

    def __getitem__(self, k):
        return dict.__getitem__(self, k.lower())

    def get(self, k, default=None):
        return dict.get(self, k.lower(), default)

    def pop(self, k, *a):
        return dict.pop(self, k.lower(), *a)

    def copy(self):
        return type(self)(self)


class HTTPHeaders(CaseInsensitiveDict):
    """tornado.httputil.HTTPHeaders as far as the hook uses it."""

    def get_list(self, k):
        return [dict.__getitem__(self, k.lower())] if k in self else []


class Response:
    def __init__(self, leg, headers=None, cls=CaseInsensitiveDict):
        self.leg = leg
        self.status_code = self.status = self.code = 200
        self.content = self.body = b'{"managed": false}'
        self.headers = cls(headers)
        self.error = None
        self._cache = {}

    async def json(self):
        return {"managed": False}

    async def __aenter__(self):
        return self

    async def __aexit__(self, *a):
        return False


ERRHDR_KEYS = {"errhdr:": "x-lunar-error", "errHDR:": "X-Lunar-Error", "ERRHDR:": "X-LUNAR-ERROR"}
LIBS = ("requests", "aiohttp", "tornado")


def _exc_tree(spec):
    """spec: list of (name, (base names or classes)) in definition order -> dict name -> class."""
    d = {}
    for name, bases in spec:
        d[name] = type(name, tuple(d[b] if isinstance(b, str) else b for b in bases), {"__init__": lambda self, *a, **k: Exception.__init__(self, *a)})
    return d


import ssl as _ssl

# exception hierarchies as in requests 2.x / aiohttp 3.x / tornado 6.x (names and base classes only)
EXC = {
    "requests": _exc_tree([
        ("RequestException", (IOError,)), ("HTTPError", ("RequestException",)),
        ("ConnectionError", ("RequestException",)), ("ProxyError", ("ConnectionError",)),
        ("SSLError", ("ConnectionError",)), ("Timeout", ("RequestException",)),
        ("ConnectTimeout", ("ConnectionError", "Timeout")), ("ReadTimeout", ("Timeout",)),
        ("TooManyRedirects", ("RequestException",)), ("ChunkedEncodingError", ("RequestException",)),
        ("ContentDecodingError", ("RequestException",)), ("InvalidURL", ("RequestException", ValueError)),
        ("MissingSchema", ("RequestException", ValueError))]),
    "aiohttp": _exc_tree([
        ("ClientError", (Exception,)), ("ClientResponseError", ("ClientError",)),
        ("ContentTypeError", ("ClientResponseError",)), ("TooManyRedirects", ("ClientResponseError",)),
        ("ClientConnectionError", ("ClientError",)), ("ClientOSError", ("ClientConnectionError", OSError)),
        ("ClientConnectorError", ("ClientOSError",)), ("ClientProxyConnectionError", ("ClientConnectorError",)),
        ("ClientSSLError", ("ClientConnectorError",)), ("ClientConnectorSSLError", ("ClientSSLError", _ssl.SSLError)),
        ("ClientConnectorCertificateError", ("ClientSSLError", _ssl.CertificateError)),
        ("ServerConnectionError", ("ClientConnectionError",)), ("ServerDisconnectedError", ("ServerConnectionError",)),
        ("ServerTimeoutError", ("ServerConnectionError", TimeoutError)),
        ("ServerFingerprintMismatch", ("ServerConnectionError",)), ("ClientPayloadError", ("ClientError",)),
        ("InvalidURL", ("ClientError", ValueError)), ("TimeoutError", (TimeoutError,))]),
    "tornado": _exc_tree([
        ("HTTPClientError", (Exception,)), ("HTTPTimeoutError", ("HTTPClientError",)),
        ("HTTPStreamClosedError", ("HTTPClientError",)), ("CurlError", ("HTTPClientError",)),
        ("gaierror", (socket.gaierror,)), ("ValueError", (ValueError,))]),
}
# the words `connerr` / `connsub` per library: the registered base class / a descendant of it
CONN_WORDS = {"requests": ("ConnectionError", "ConnectTimeout"), "aiohttp": ("ClientConnectionError", "ClientConnectorError"),
              "tornado": ("HTTPClientError", "gaierror")}


def gw_word_ok(g, lib="requests"):
    if g.startswith("exc:"):
        l, _, n = g[4:].partition(".")
        return l == lib and n in EXC[lib]
    return g in ("ok", "connerr", "connsub", "errhdr", "appexc") or (g[:7] in ERRHDR_KEYS and len(g) > 7)


class Script:
    """What the gateway / the provider do on the current call, and which legs were contacted."""
    gw = "ok"
    direct = "ok"
    legs = []
    lib = "requests"
    gw_exc = None


SCRIPT = Script()


def transport(url, hdr_cls):
    """The scripted network under all three stand-in libraries."""
    u = url if isinstance(url, URL) else URL(url)
    sc = SCRIPT
    if u.host == PROXY_HOST and u.port == PROXY_PORT:
        sc.legs.append("gw")
        g = sc.gw
        if g == "ok":
            return Response("gw", None, hdr_cls)
        if g == "errhdr":
            return Response("gw", {"x-lunar-error": "2"}, hdr_cls)
        if g[:7] in ERRHDR_KEYS:
            return Response("gw", {ERRHDR_KEYS[g[:7]]: dec(g[7:])}, hdr_cls)
        if g == "connerr":
            sc.gw_exc = EXC[sc.lib][CONN_WORDS[sc.lib][0]]("gateway connection failed")
        elif g == "connsub":
            sc.gw_exc = EXC[sc.lib][CONN_WORDS[sc.lib][1]]("gateway connection failed")
        elif g.startswith("exc:"):
            sc.gw_exc = EXC[sc.lib][g[4:].partition(".")[2]]("failure on the gateway leg")
        else:
            sc.gw_exc = AppGw("application exception on the gateway leg")
        raise sc.gw_exc
    sc.legs.append("direct")
    if sc.direct == "ok":
        return Response("direct", None, hdr_cls)
    raise AppDirect("application exception on the direct leg")


class Session:
    """requests.Session stand-in: `request` is what the hook captures as `_original_function`."""

    def request(self, method, url, *args, **kwargs):
        return transport(url, CaseInsensitiveDict)


class ClientSession:
    """aiohttp.ClientSession stand-in."""

    def _build_url(self, str_or_url):
        return str_or_url if isinstance(str_or_url, URL) else URL(str_or_url)

    async def _request(self, method, str_or_url, **kwargs):
        return transport(str_or_url, CaseInsensitiveDict)

    def get(self, url, **kwargs):          # handshake only
        return Response("handshake")

    async def __aenter__(self):
        return self

    async def __aexit__(self, *a):
        return False


class HTTPRequest:
    def __init__(self, url, headers=None, follow_redirects=True, **kwargs):
        self.url = url
        self.headers = headers
        self.follow_redirects = follow_redirects


class AsyncHTTPClient:
    """tornado.httpclient.AsyncHTTPClient stand-in (raise_error=True: failures are raised)."""

    async def fetch(self, request, raise_error=True, **kwargs):
        return transport(request.url if isinstance(request, HTTPRequest) else request, HTTPHeaders)


PRISTINE = {"requests": Session.request, "aiohttp": ClientSession._request, "tornado": AsyncHTTPClient.fetch}


def reset_libraries():
    """Undo the previous case's init_hooks(): the stand-in libraries are pristine again."""
    Session.request = PRISTINE["requests"]
    ClientSession._request = PRISTINE["aiohttp"]
    AsyncHTTPClient.fetch = PRISTINE["tornado"]


def install_stand_in_libraries():
    m = types.ModuleType("requests")
    m.Session = Session
    for n, c in EXC["requests"].items():
        setattr(m, n, c)
    m.exceptions = types.ModuleType("requests.exceptions")
    for n, c in EXC["requests"].items():
        setattr(m.exceptions, n, c)
    m.Response = Response
    m.models = types.ModuleType("requests.models")
    m.models.CaseInsensitiveDict = CaseInsensitiveDict
    m.sessions = types.ModuleType("requests.sessions")
    m.sessions.Session = Session
    m.get = lambda url, headers=None: Response("handshake")
    sys.modules["requests"] = m
    sys.modules["requests.exceptions"] = m.exceptions
    a = types.ModuleType("aiohttp")
    a.__path__ = []
    a.ClientSession = ClientSession
    a.client = types.ModuleType("aiohttp.client")
    a.client.ClientSession = ClientSession
    a.client.ClientResponse = Response
    a.typedefs = types.ModuleType("aiohttp.typedefs")
    a.typedefs.StrOrURL = object
    a.client_exceptions = types.ModuleType("aiohttp.client_exceptions")
    for n, c in EXC["aiohttp"].items():
        setattr(a.client_exceptions, n, c)
        setattr(a, n, c)
    for sub in ("client", "typedefs", "client_exceptions"):
        sys.modules["aiohttp." + sub] = getattr(a, sub)
    sys.modules["aiohttp"] = a
    md = types.ModuleType("multidict")

    class CIMultiDictProxy(CaseInsensitiveDict):
        def __class_getitem__(cls, item):
            return cls
    md.CIMultiDictProxy = CIMultiDictProxy
    sys.modules["multidict"] = md
    t = types.ModuleType("tornado")
    t.__path__ = []
    t.httpclient = types.ModuleType("tornado.httpclient")
    t.httpclient.AsyncHTTPClient = AsyncHTTPClient
    t.httpclient.HTTPRequest = HTTPRequest
    t.httpclient.HTTPResponse = Response
    t.httpclient.HTTPClientError = EXC["tornado"]["HTTPClientError"]
    t.httpclient.HTTPError = EXC["tornado"]["HTTPClientError"]
    t.httputil = types.ModuleType("tornado.httputil")
    t.httputil.HTTPHeaders = HTTPHeaders
    sys.modules["tornado"] = t
    sys.modules["tornado.httpclient"] = t.httpclient
    sys.modules["tornado.httputil"] = t.httputil


def run_sync(coro):
    """Drive a coroutine that never really suspends (the scripted transports do not await)."""
    try:
        coro.send(None)
    except StopIteration as e:
        return e.value
    coro.close()
    raise RuntimeError("coroutine suspended")


# ----------------------------------------------------------------------------- loading the real code

class Clock:
    ticks = 0


CLOCK = Clock()
DNS = {}           # host -> outcome word of the current case
DNS_FAIL = {}      # host -> number of initial lookups that fail transiently (resolver answers are a history)
LOOKUPS = {}       # host -> lookups made so far in the current case
FAULT = [False]    # a transient resolver failure happened during the current call / decide
REAL_GETHOSTBYNAME = socket.gethostbyname


def fake_time():
    return CLOCK.ticks / float(TICKS_PER_SEC)


def fake_gethostbyname(host):
    n = LOOKUPS.get(host, 0)
    LOOKUPS[host] = n + 1
    if n < DNS_FAIL.get(host, 0):
        FAULT[0] = True
        # what the real resolver raised in this sandbox for a temporary failure (EAI_AGAIN)
        raise socket.gaierror(socket.EAI_AGAIN, "Temporary failure in name resolution")
    o = DNS.get(host)
    if o is None or o == "gaierror":
        raise socket.gaierror(-2, "Name or service not known")
    if o.startswith("ip:"):
        return o[3:]
    if o == "oserror:emfile":
        raise OSError(errno.EMFILE, "Too many open files")
    if o == "oserror:enomem":
        raise OSError(errno.ENOMEM, "Cannot allocate memory")
    if o == "herror":
        raise socket.herror(1, "Unknown host")
    if o == "timeout":
        raise socket.timeout("timed out")
    # `real:<ip>` and `unicode`: whatever the real resolver does (no network needed for these)
    return REAL_GETHOSTBYNAME(host)


def load_by_path(name, rel):
    path = os.path.join(SRC, rel)
    spec = importlib.util.spec_from_file_location(name, path)
    mod = importlib.util.module_from_spec(spec)
    sys.modules[name] = mod
    spec.loader.exec_module(mod)
    return mod


class Real:
    pass


def load_real():
    import asyncio
    import warnings
    warnings.simplefilter("ignore")
    loop = asyncio.new_event_loop()
    asyncio.set_event_loop(loop)          # Interceptor.set_hooks() runs the handshake on it
    P = "lunar_interceptor.interceptor."
    for n in ("lunar_interceptor", "lunar_interceptor.interceptor"):
        m = types.ModuleType(n)
        m.__path__ = []
        sys.modules[n] = m
    # the hooks package is the REAL one (its __init__ lists LUNAR_HOOKS); executed below, once
    # the modules it imports are in place
    hooks_dir = os.path.join(SRC, "interceptor/hooks")
    hspec = importlib.util.spec_from_file_location(P + "hooks", os.path.join(hooks_dir, "__init__.py"),
                                                   submodule_search_locations=[hooks_dir])
    hooks_pkg = importlib.util.module_from_spec(hspec)
    sys.modules[P + "hooks"] = hooks_pkg
    try:
        import pkg_resources  # noqa: F401  (helpers.py needs it)
    except Exception:
        pr = types.ModuleType("pkg_resources")

        def get_distribution(_n):
            raise LookupError(_n)
        pr.get_distribution = get_distribution
        sys.modules["pkg_resources"] = pr
    y = types.ModuleType("yarl")
    y.URL = URL
    sys.modules["yarl"] = y
    install_stand_in_libraries()
    r = Real()
    r.loop = loop
    r.helpers = load_by_path(P + "helpers", "interceptor/helpers.py")
    r.const = load_by_path(P + "hooks.const", "interceptor/hooks/const.py")
    r.fail_safe = load_by_path(P + "fail_safe", "interceptor/fail_safe.py")
    r.traffic_filter = load_by_path(P + "traffic_filter", "interceptor/traffic_filter.py")
    r.configuration = load_by_path(P + "configuration", "interceptor/configuration.py")
    r.hook = load_by_path(P + "hooks.hook", "interceptor/hooks/hook.py")
    r.hooks_helpers = load_by_path(P + "hooks.helpers", "interceptor/hooks/helpers.py")
    hspec.loader.exec_module(hooks_pkg)    # imports .aiohttp, .requests, .tornado over the stand-in libraries
    r.hooks_pkg = hooks_pkg
    r.singleton = load_by_path(P + "singleton", "interceptor/singleton.py")
    r.interceptor = load_by_path(P + "interceptor", "interceptor/interceptor.py")
    r.fail_safe.time = fake_time
    r.traffic_filter.gethostbyname = fake_gethostbyname
    with open(os.path.join(SRC, "interceptor/configuration.py")) as f:
        r.configuration_code = compile(f.read(), os.path.join(SRC, "interceptor/configuration.py"), "exec")
    # the wiring functions of the real package __init__
    with open(os.path.join(SRC, "__init__.py")) as f:
        tree = ast.parse(f.read())
    want = ("_load_fail_safe", "_build_traffic_filter_from_env_vars", "_initialize_hooks")
    fns = [n for n in tree.body if isinstance(n, ast.FunctionDef) and n.name in want]
    if len(fns) != 3:
        raise RuntimeError("wiring functions not found in lunar_interceptor/__init__.py")
    r.wiring_code = compile(ast.Module(body=fns, type_ignores=[]), os.path.join(SRC, "__init__.py"), "exec")
    r.logger = logging.getLogger("verif-c19")
    r.logger.addHandler(logging.NullHandler())
    r.logger.propagate = False
    r.logger.setLevel(logging.CRITICAL + 10)
    return r


REAL = None
ENV_KEYS = ("LUNAR_ENTER_COOLDOWN_AFTER_ATTEMPTS", "LUNAR_EXIT_COOLDOWN_AFTER_SEC", "LUNAR_ALLOW_LIST",
            "LUNAR_BLOCK_LIST", "LUNAR_PROXY_HOST", "LUNAR_PROXY_SUPPORT_TLS", "LUNAR_TENANT_ID",
            "LUNAR_HANDSHAKE_PORT")
CFG_CACHE = {}


def interceptor_config(max_s, cool_s, allow, block):
    """Environment -> real configuration.py (executed afresh: it reads the environment at class
    definition time) -> InterceptorConfig.  Cached per environment tuple (a pure function of it)."""
    key = (max_s, cool_s, allow, block)
    c = CFG_CACHE.get(key)
    if c is not None:
        return c
    for k in ENV_KEYS:
        os.environ.pop(k, None)
    os.environ["LUNAR_ENTER_COOLDOWN_AFTER_ATTEMPTS"] = max_s
    os.environ["LUNAR_EXIT_COOLDOWN_AFTER_SEC"] = cool_s
    if allow is not None:
        os.environ["LUNAR_ALLOW_LIST"] = allow
    if block is not None:
        os.environ["LUNAR_BLOCK_LIST"] = block
    os.environ["LUNAR_PROXY_HOST"] = "%s:%d" % (PROXY_HOST, PROXY_PORT)
    ns = {"__name__": "lunar_interceptor.interceptor.configuration"}
    exec(REAL.configuration_code, ns)
    c = ns["get_interceptor_config"](REAL.logger)
    if len(CFG_CACHE) > 4096:
        CFG_CACHE.clear()
    CFG_CACHE[key] = c
    return c


class Interceptor:
    """The objects of one case, created by the package's own `_initialize_hooks()`: the real
    `Interceptor(...).set_hooks()` builds every supported hook of LUNAR_HOOKS (aiohttp, requests,
    tornado) on ONE shared FailSafe / TrafficFilter, does the handshake through the first hook and
    installs the hooks into the (stand-in) libraries."""

    def __init__(self, max_s, cool_s, allow, block):
        cfg = interceptor_config(max_s, cool_s, allow, block)
        reset_libraries()
        REAL.singleton.Singleton._instances.clear()
        ns = {"interceptor_config": cfg, "_LOGGER": REAL.logger, "FailSafe": REAL.fail_safe.FailSafe,
              "ProxyErrorException": REAL.fail_safe.ProxyErrorException,
              "TrafficFilter": REAL.traffic_filter.TrafficFilter, "Interceptor": REAL.interceptor.Interceptor}
        exec(REAL.wiring_code, ns)
        ns["_initialize_hooks"]()
        inst = REAL.singleton.Singleton._instances[REAL.interceptor.Interceptor]
        self.fs = inst._fail_safe
        self.tf = inst._traffic_filter
        self.hooks = inst._lunar_hooks
        self.session = Session()
        self.aio = ClientSession()
        self.tornado = AsyncHTTPClient()

    def call(self, lib, url, kwargs):
        """The application's call through the public entry point of the library."""
        if lib == "requests":
            return self.session.request("GET", url, **kwargs)
        if lib == "aiohttp":
            return run_sync(self.aio._request("GET", url, **kwargs))
        return run_sync(self.tornado.fetch(url, **kwargs))


# ----------------------------------------------------------------------------- executor

def fmt_list(l):
    if l is None:
        return "%n"
    if len(l) == 0:
        return "%z"
    return enc(",".join(l))


def opt(w):
    return None if w == "%n" else dec(w)


def headers_of(w):
    if w == "-":
        return None
    if w == "other":
        return {"accept": "x"}
    if w.startswith("v:"):
        return {"x-lunar-allow": dec(w[2:]), "accept": "x"}
    if w.startswith("K:"):
        return {"X-Lunar-Allow": dec(w[2:])}
    raise ValueError("hdr")


EXC_NAMES = {"AppGw": "AppGw", "AppDirect": "AppDirect"}


def exec_case(ops, out):
    """One answer line per op line; a pure function of the op lines."""
    outs = []
    ic = None
    called = False
    DNS.clear()
    DNS_FAIL.clear()
    LOOKUPS.clear()
    CLOCK.ticks = 0
    tripped = excluded = raised = False
    for op in ops:
        w = op.split(" ")
        w = [x for x in w if x]
        k = w[0] if w else ""
        try:
            if k == "cfg":
                m, c, b, a, t0 = kv(w, "max"), kv(w, "cool"), kv(w, "block"), kv(w, "allow"), kv(w, "t0")
                if ic is not None or None in (m, c, b, a, t0) or not (m.isdigit() and c.isdigit() and t0.isdigit()):
                    outs.append("bad-op")
                    continue
                CLOCK.ticks = int(t0)
                ic = Interceptor(m, c, opt(a), opt(b))
                outs.append("ok valid=%d max=%d cool=%d allow=%s block=%s" % (
                    int(ic.tf._state_ok), ic.fs._max_errors_allowed, ic.fs._cooldown_time,
                    fmt_list(ic.tf._allow_list), fmt_list(ic.tf._block_list)))
            elif k == "dns" and len(w) in (3, 4):
                r = w[2]
                nfail = kv(w[3:], "fail") if len(w) == 4 else "0"
                if nfail is None or not nfail.isdigit():
                    outs.append("bad-op")
                    continue
                okres = r in ("gaierror", "unicode", "oserror:emfile", "oserror:enomem", "herror", "timeout") or ((r.startswith("ip:") or r.startswith("real:")) and valid_quad(r.split(":", 1)[1]))
                if ic is None or called or not okres:
                    outs.append("bad-op")
                    continue
                DNS[dec(w[1])] = r
                DNS_FAIL[dec(w[1])] = int(nfail)
                outs.append("ok")
            elif k == "adv" and len(w) == 2 and (kv(w, "d") or "").isdigit():
                if ic is None:
                    outs.append("bad-op")
                    continue
                CLOCK.ticks += int(kv(w, "d"))
                outs.append("ok")
            elif k == "call":
                host, hd, gw, di = kv(w, "host"), kv(w, "hdr"), kv(w, "gw"), kv(w, "direct")
                lib = kv(w, "lib") or "requests"
                if ic is None or None in (host, hd, gw, di) or lib not in LIBS or not gw_word_ok(gw, lib) \
                        or di not in ("ok", "exc"):
                    outs.append("bad-op")
                    continue
                try:
                    headers = headers_of(hd)
                except ValueError:
                    outs.append("bad-op")
                    continue
                called = True
                host = dec(host)
                s = SCRIPT
                s.gw, s.direct, s.legs, s.lib, s.gw_exc = gw, di, [], lib, None
                FAULT[0] = False
                url = "http://%s/v1/x" % (("[%s]" % host) if ":" in host else host)
                kwargs = {} if headers is None else {"headers": headers}
                try:
                    resp = ic.call(lib, url, kwargs)
                    res = "resp:" + resp.leg
                except Exception as e:  # an exception reaching the application is an observable answer
                    if e is s.gw_exc:   # what the gateway leg raised (of whatever class) reached the application
                        res = "raise:AppGw"
                    else:
                        res = "raise:" + type(e).__name__
                    if not isinstance(e, (AppGw, AppDirect)) and e is not s.gw_exc:
                        raised = True
                out.count("lib-" + lib)
                outs.append("sent=%s res=%s cnt=%d ok=%d flt=%d" % (",".join(s.legs) or "-", res, ic.fs._error_counter,
                                                                    int(ic.fs._state_ok), int(FAULT[0])))
                if FAULT[0]:
                    out.count("call-with-transient-resolver-fault")
                if not ic.fs._state_ok:
                    tripped = True
                if s.legs == ["direct"] and ic.fs._state_ok:
                    excluded = True
                out.count("gw-" + (gw if gw.startswith("exc:") else gw.split(":")[0]) if "gw" in s.legs else "not-routed")
                if "gw" in s.legs and gw[:7] in ERRHDR_KEYS:
                    out.count("gw-errhdr-value-" + gw[7:])
                out.count("result-" + res)
            elif k == "decide":
                host, hd = kv(w, "host"), kv(w, "hdr")
                if ic is None or None in (host, hd):
                    outs.append("bad-op")
                    continue
                try:
                    headers = headers_of(hd)
                except ValueError:
                    outs.append("bad-op")
                    continue
                called = True
                FAULT[0] = False
                try:
                    a = int(bool(ic.tf.is_allowed(dec(host), headers)))
                    outs.append("allowed=%d flt=%d" % (a, int(FAULT[0])))
                except Exception as e:  # the decision raised: an observable answer
                    outs.append("raised:" + type(e).__name__)
                    raised = True
                out.count("decide-" + outs[-1].split(":")[0])
            elif k == "probe" and len(w) == 2:
                tf = ic.tf if ic is not None else REAL.traffic_filter.TrafficFilter(None, None, REAL.logger)
                h = dec(w[1])
                outs.append("host=%d ip=%d" % (int(bool(tf._validate_host(h))), int(bool(tf._validate_ip(h)))))
            else:
                outs.append("bad-op")
        except Exception as e:  # the implementation blew up outside a call: observable, like a Go panic
            out.count("impl-exception")
            outs.append("panic " + enc("%s:%s" % (type(e).__name__, e))[:200])
            if os.environ.get("VERIF_DEBUG"):
                import traceback
                traceback.print_exc()
    if tripped:
        out.count("case-breaker-opened")
    if excluded:
        out.count("case-destination-excluded")
    if raised:
        out.count("case-decision-raised")
    if tripped or excluded or raised:
        out.nontrivial("|".join(ops) + "#" + "|".join(outs))
    return outs


def valid_quad(s):
    p = s.split(".")
    return len(p) == 4 and all(x.isdigit() and x.isascii() and int(x) < 256 for x in p)


# ----------------------------------------------------------------------------- generators

T0 = 1_700_000_000 * TICKS_PER_SEC
PUBLIC = "api.example.test"
PUBLIC_IP = "93.184.216.34"
PRIVATE_LIT = "10.1.2.3"
FLAKY = "flaky.example.test"      # public; its first two lookups fail transiently
FAULTY = "emfile.example.test"
FAULTY2 = "slow.example.test"

BOUNDARY_IPS = [
    "0.0.0.0", "0.0.0.1", "1.0.0.1", "9.255.255.255", "10.0.0.0", "10.0.0.1", "10.255.255.255", "11.0.0.0",
    "12.0.0.1", "17.1.1.1", "19.1.1.1", "100.0.0.1", "100.64.0.1", "101.1.1.1", "109.255.255.255",
    "120.1.1.1", "126.255.255.255", "127.0.0.0", "127.0.0.1", "127.255.255.255", "128.0.0.0", "129.1.1.1",
    "169.254.1.1", "170.1.1.1", "172.15.255.255", "172.16.0.0", "172.16.0.1", "172.31.255.255", "172.32.0.0",
    "179.1.1.1", "190.1.1.1", "192.167.255.255", "192.168.0.0", "192.168.1.1", "192.168.255.255", "192.169.0.0",
    "199.1.1.1", "255.255.255.255", "8.8.8.8", "93.184.216.34", "1.2.3.4", "10.10.10.10", "127.10.0.1",
    "172.20.10.2", "192.0.2.1", "19.168.0.1", "17.16.0.1", "12.7.0.1", "1.0.0.0",
]
IPV6_LITS = ["::1", "::", "::ffff:10.0.0.1", "::ffff:8.8.8.8", "fe80::1", "2001:db8::1", "1:2:3:4:5:6:7:8",
             "fe80::1%eth0", "1::8", "::2:3:4:5:6:7:8", "1:2:3:4:5:6:7::", "10::", "12::1", "17::", "19::1"]
NOT_IPV6 = ["1:2:3:4:5:6:7:8:9", ":1", "1:", ":::", "1::2::3", "12345::", "g::1", "::1%", "::1%a%b", "1:2:3:4:5:6:7",
            "::ffff:256.0.0.1", "::ffff:1.2.3", "1:2:3:4:5:6:7:8::", "::1/64", "1.2.3.4/8"]
# numeric-looking names: what the real gethostbyname (inet_aton rules) was seen to answer
NUMERIC_NAMES = {"127.1": "127.0.0.1", "2130706433": "127.0.0.1", "0x7f.1": "127.0.0.1", "010.0.0.1": "8.0.0.1",
                 "10.1": "10.0.0.1", "0": "0.0.0.0", "192.168.257": "192.168.1.1", "1.2.3": "1.2.0.3", "0300.0250.1": "192.168.0.1"}
UNRESOLVABLE = ["1.2.3.4.5", "256.1.1.1", "nosuch.example.test", "None", "a b", "1.2.3.4."]
def gateway_error_codes():
    """Every x-lunar-error value the gateway itself can emit (read from its haproxy.cfg), else the known list."""
    codes = []
    try:
        import re
        with open(os.path.join(REPO, "proxy/rootfs/etc/haproxy/haproxy.cfg")) as f:
            for m in re.finditer(r"hdr\s+x-lunar-error\s+(\S+)", f.read()):
                if m.group(1) not in codes:
                    codes.append(m.group(1))
    except OSError:
        pass
    for c in ("1", "2", "3", "4", "5", "10"):
        if c not in codes:
            codes.append(c)
    return sorted(codes, key=lambda c: (len(c), c))


# values outside the gateway's own table: unknown numeric, non-numeric, empty, padded, zero
ODD_ERROR_VALUES = ["77", "0", "abc", "", " 2", "2 ", "-1", "10.0"]


def errhdr_words():
    ws = ["errhdr:" + enc(c) for c in gateway_error_codes()] + ["errhdr:" + enc(v) for v in ODD_ERROR_VALUES]
    ws += ["errHDR:10", "ERRHDR:2", "errHDR:77", "ERRHDR:%e"]
    return ws


RESOLVER_FAULTS = ["oserror:emfile", "oserror:enomem", "herror", "timeout"]
UNICODE_NAMES = ["a" * 64 + ".example.test", "a..b", ".example.test", "x." + "b" * 70]
NAMES = ["api.example.test", "internal.example.test", "db", "localhost", "svc-1.example.test", "a-b", "ab", "x_y.example.test",
         "a" * 63 + ".example.test", "EXAMPLE.test", "10.example.test", "127.0.0.1.nip.test"]
BAD_ENTRIES = [" api.example.test", "api.example.test ", "\tinternal.example.test", " 8.8.8.8", "db ", "bad_entry", "a-b", "1.2.3", "", "-x.com", "x.com-", "a", "1.2.3.4.5", "ex ample", "a..b", "::1::", "300.1.1.1"]
HDRS = ["-", "-", "-", "other", "v:true", "v:false", "v:True", "v:%e", "v:1", "K:true", "v:true%20"]


def q(name, ops):
    return name, ops


HDR_EVENTS = {"0": "errhdr:10", "1": "errhdr:77", "2": "errhdr:abc", "3": "errhdr:%e", "4": "errHDR:10", "5": "ERRHDR:3"}


def seq_case(cid, maxe, cool, events, extra_cfg="", lib=None, rnd=None):
    """events: list of event letters -> op lines"""
    ops = ["cfg max=%d cool=%d block=%%n allow=%%n t0=%d" % (maxe, cool, T0), "dns %s ip:%s" % (PUBLIC, PUBLIC_IP),
           "dns %s oserror:emfile" % FAULTY, "dns %s timeout" % FAULTY2, "dns %s ip:%s fail=2" % (FLAKY, PUBLIC_IP)]
    eff = cool if cool else 10
    for e in events:
        if e == "S":
            ops.append("call host=%s hdr=- gw=ok direct=ok" % PUBLIC)
        elif e == "E":
            ops.append("call host=%s hdr=- gw=connerr direct=ok" % PUBLIC)
        elif e == "H":
            ops.append("call host=%s hdr=- gw=errhdr direct=ok" % PUBLIC)
        elif e in HDR_EVENTS:   # x-lunar-error with one specific value / key spelling
            ops.append("call host=%s hdr=- gw=%s direct=ok" % (PUBLIC, HDR_EVENTS[e]))
        elif e == "A":
            ops.append("call host=%s hdr=- gw=appexc direct=ok" % PUBLIC)
        elif e == "B":
            ops.append("call host=%s hdr=- gw=ok direct=ok" % PRIVATE_LIT)
        elif e == "T":     # half the cool-down: two of them land exactly on the boundary
            ops.append("adv d=%d" % (eff * TICKS_PER_SEC // 2))
        elif e == "t":     # one tick
            ops.append("adv d=1")
        elif e == "U":     # one tick short of the cool-down
            ops.append("adv d=%d" % (eff * TICKS_PER_SEC - 1))
        elif e == "X":     # direct leg raises
            ops.append("call host=%s hdr=- gw=connerr direct=exc" % PUBLIC)
        elif e == "Y":     # excluded destination whose direct call raises
            ops.append("call host=%s hdr=- gw=ok direct=exc" % PRIVATE_LIT)
        elif e == "C":
            ops.append("call host=%s hdr=- gw=connsub direct=ok" % PUBLIC)
        elif e == "6":     # decision raises (F19a)
            ops.append("call host=::1 hdr=- gw=ok direct=ok")
        elif e == "F":     # a public destination whose first lookups fail transiently
            ops.append("call host=%s hdr=- gw=ok direct=ok" % FLAKY)
        elif e == "f":
            ops.append("decide host=%s hdr=-" % FLAKY)
        elif e == "R":     # resolver system error while classifying the destination
            ops.append("call host=%s hdr=- gw=ok direct=ok" % FAULTY)
        elif e == "r":
            ops.append("call host=%s hdr=other gw=errhdr direct=exc" % FAULTY2)
        elif e == "D":
            ops.append("decide host=%s hdr=-" % FAULTY)
        elif e == "Z":     # a failure of a random class of the library's exception hierarchy on the gateway leg
            l = lib or "requests"
            ops.append("call host=%s hdr=- gw=exc:%s.%s direct=ok" % (PUBLIC, l, rnd.pick(sorted(EXC[l]))))
        elif e == "O":     # header override on a private destination
            ops.append("call host=%s hdr=v:true gw=errhdr direct=ok" % PRIVATE_LIT)
        elif e == "N":     # header override refusing a public destination
            ops.append("call host=%s hdr=v:false gw=ok direct=ok" % PUBLIC)
    if lib is not None:
        ops = [o.replace("call host=", "call lib=%s host=" % lib, 1) if o.startswith("call host=") else o for o in ops]
    return cid, ops


def rand_list(r, pool):
    k = r.pick([0, 1, 1, 2, 3, 5])
    if k == 0:
        return r.pick(["%n", "%n", "%e"])
    items = []
    for _ in range(k):
        if r.chance(12):
            items.append(r.pick(BAD_ENTRIES))
        else:
            items.append(r.pick(pool))
    # lists as people write them: blanks around the delimiter end up INSIDE the entries
    sep = r.pick([",", ",", ",", ",", ", ", " ,", " , "])
    if sep != ",":
        # the validator's regular expression backtracks exponentially on a long label followed by an invalid
        # character (63 x 'a' + blank never returns): keep blank-padded entries short
        items = [i for i in items if all(len(l) <= 12 for l in i.split("."))] or ["db"]
    return enc(sep.join(items))


def host_case(r, cid):
    """Destinations x lists x DNS."""
    dns = {}
    pool = []
    for _ in range(r.range(3, 10)):
        kind = r.intn(10)
        if kind < 3:
            pool.append(r.pick(BOUNDARY_IPS))
        elif kind == 3:
            pool.append("%d.%d.%d.%d" % (r.pick([0, 1, 9, 10, 11, 12, 17, 19, 100, 126, 127, 128, 171, 172, 173, 191, 192, 193, r.intn(256)]),
                                         r.pick([0, 15, 16, 31, 32, 167, 168, 169, r.intn(256)]), r.intn(256), r.intn(256)))
        elif kind == 4:
            pool.append(r.pick(IPV6_LITS + [x for x in NOT_IPV6 if "/" not in x]))  # '/' cannot be part of a URL host
        elif kind == 5:
            n = r.pick(sorted(NUMERIC_NAMES))
            pool.append(n)
            dns[n] = "real:" + NUMERIC_NAMES[n]
        elif kind == 6:
            n = r.pick(UNRESOLVABLE + UNICODE_NAMES)
            pool.append(n)
            if n in UNICODE_NAMES:
                dns[n] = "unicode"
            elif r.chance(50):
                dns[n] = "gaierror"
            elif r.chance(50):
                dns[n] = r.pick(RESOLVER_FAULTS)
        else:
            n = r.pick(NAMES)
            pool.append(n)
            if r.chance(80):
                dns[n] = "ip:" + (r.pick(BOUNDARY_IPS) if r.chance(80) else PUBLIC_IP)
                if r.chance(25):
                    dns[n] += " fail=%d" % r.range(1, 3)
            elif r.chance(60):
                dns[n] = r.pick(RESOLVER_FAULTS + ["gaierror"])
    mode = r.intn(10)
    allow = block = "%n"
    if mode < 4:
        pass
    elif mode < 7:
        block = rand_list(r, pool)
    elif mode < 9:
        allow = rand_list(r, pool)
    else:
        allow, block = rand_list(r, pool), rand_list(r, pool)
    ops = ["cfg max=%d cool=%d block=%s allow=%s t0=%d" % (r.pick([0, 1, 2, 3, 4, 5]), r.pick([0, 1, 2, 5]), block, allow, T0)]
    for h in sorted(dns):
        ops.append("dns %s %s" % (enc(h), dns[h]))
    for _ in range(r.range(2, 12)):
        h = r.pick(pool) if r.chance(92) else r.pick(BOUNDARY_IPS + NAMES)
        if r.chance(25):   # the filter alone (shares the cache with the calls)
            ops.append("decide host=%s hdr=%s" % (enc(h), r.pick(HDRS)))
        else:
            lib = r.pick(LIBS)
            ops.append("call lib=%s host=%s hdr=%s gw=%s direct=%s" % (lib, enc(h), r.pick(HDRS), r.pick(["ok", "ok", "ok", "errhdr", "connerr", "appexc", r.pick(ERRHDR_WORDS),
                                                                                         "exc:%s.%s" % (lib, r.pick(sorted(EXC[lib])))]),
                                                                  r.pick(["ok", "ok", "ok", "exc"])))
        if r.chance(10):
            ops.append("adv d=%d" % r.pick([1, 7, 8, 9, 40, 80]))
    return cid, ops


def rand_seq_case(r, cid):
    maxe = r.pick([1, 2, 3, 4, 1, 2, 3, 4, 0, 5, 7])
    cool = r.pick([1, 2, 3, 4, 5, 1, 2, 3, 4, 5, 0])
    n = r.range(1, 12)
    # failure-heavy so that the breaker really opens, with advances around the boundary
    letters = "SEEHHCABTTtUXY6ONRrD012345ZZZFFFf"
    ev = [letters[r.intn(len(letters))] for _ in range(n)]
    return seq_case(cid, maxe, cool, ev, lib=r.pick(LIBS), rnd=r)


def probe_case(r, cid, n):
    ops = ["cfg max=1 cool=1 block=%n allow=%n t0=0"]
    fixed = IPV6_LITS + NOT_IPV6 + BOUNDARY_IPS[:8] + BAD_ENTRIES + NAMES + list(NUMERIC_NAMES) + UNRESOLVABLE + \
        [" ab.cd", "ab.cd ", " ab.cd ", "\tab.cd", "ab .cd", " 1.2.3.4", "1.2.3.4 ", "a-bc", "ab-c", "a--b", "a-b-c", "a.b", "ab.cd", "a.bc", "a-.bc", "1a", "1.2.3.a", "1.2.3.4a", "01.2.3.4", "1.2.3.04",
         "1.2.3.256", "255.255.255.255", "1..2.3", "1.2.3.4.", ".1.2.3.4", "00.0.0.0", "0.0.0.00", "1.2.3.1000", "::", ":::",
         "::1.2.3.4", "1:2:3:4:5:6:1.2.3.4", "1:2:3:4:5:6:7:1.2.3.4", "::1.2.3", "1::1.2.3.4", "abcd:ef01:2345:6789:abcd:ef01:2345:6789",
         "ABCD::", "abcde::", "::%1", "%", "%1", "a%b", "::1%1%", "1.2.3.4%1", "-", ".", "..", "a.", ".a", "a..bc", "xn--a.bc"]
    for s in fixed:
        ops.append("probe " + enc(s))
    alph = [":", ":", ":", "0", "1", "a", "f", "g", ".", "%", "12", "255", "256", "ffff", "::", "/"]
    alph4 = ["0", "1", "2", "5", "9", ".", ".", "10", "25", "00", "256", "a"]
    alphh = ["a", "b", "1", "-", ".", "ab", "_"]
    for i in range(n):
        a = (alph, alph4, alphh)[i % 3]
        s = "".join(r.pick(a) for _ in range(r.range(1, 10)))
        ops.append("probe " + enc(s))
    return cid, ops


def enum_seqs(alphabet, maxlen):
    seqs = [""]
    frontier = [""]
    for _ in range(maxlen):
        frontier = [s + a for s in frontier for a in alphabet]
        seqs += frontier
    return seqs[1:]


ERRHDR_WORDS = []


def generate(r, tier, budget, emit):
    n = 0
    ERRHDR_WORDS[:] = errhdr_words()

    def nid(p):
        nonlocal n
        n += 1
        return "%s%d" % (p, n)
    nseq = (1000 if tier == "quick" else 6000) * budget
    nhost = (2000 if tier == "quick" else 12000) * budget
    for _ in range(nseq):
        emit(*rand_seq_case(r.fork(), nid("s")))
    for _ in range(nhost):
        emit(*host_case(r.fork(), nid("h")))
    for _ in range(4 * budget):
        emit(*probe_case(r.fork(), nid("p"), 400 if tier == "quick" else 3000))
    for w in ERRHDR_WORDS:
        for maxe in (1, 2, 3):
            ops = ["cfg max=%d cool=2 block=%%n allow=%%n t0=%d" % (maxe, T0), "dns %s ip:%s" % (PUBLIC, PUBLIC_IP)]
            ops += ["call host=%s hdr=- gw=%s direct=ok" % (PUBLIC, w)] * maxe
            ops += ["call host=%s hdr=- gw=ok direct=ok" % PUBLIC, "adv d=16", "call host=%s hdr=- gw=ok direct=ok" % PUBLIC]
            emit(nid("x"), ops)
    # access lists written with blanks around the delimiter ("a.com, b.com"): the entries keep the blank, are
    # not hosts, and (block list) disable the interceptor / (allow list) are dropped - never silently accepted
    for sep in (", ", " ,", " , ", ",\t"):
        for kind in ("block", "allow"):
            for lib in LIBS:
                lst = enc(sep.join(["other.example.test", PUBLIC, "8.8.8.8"]))
                ops = ["cfg max=2 cool=1 block=%s allow=%s t0=%d" % (lst if kind == "block" else "%n", lst if kind == "allow" else "%n", T0),
                       "dns %s ip:%s" % (PUBLIC, PUBLIC_IP), "dns other.example.test ip:%s" % PUBLIC_IP, "dns third.example.test ip:%s" % PUBLIC_IP]
                for h in (PUBLIC, "other.example.test", "8.8.8.8", "third.example.test", " " + PUBLIC):
                    ops.append("call lib=%s host=%s hdr=- gw=ok direct=ok" % (lib, enc(h)))
                    ops.append("decide host=%s hdr=-" % enc(h))
                emit(nid("w"), ops)
    # resolver answers as a history: the first k lookups of a public name fail, later ones succeed; around a
    # trip of the breaker (no lookup happens while it is open) and after the cool-down
    for k in (0, 1, 2, 3):
        for maxe in (1, 2):
            for lib in LIBS:
                for pat in ("FFFFF", "EEFTTFFF", "FEEFTTFFF", "fFfFF", "EEFtFTTFFFF"):
                    ops = ["cfg max=%d cool=1 block=%%n allow=%%n t0=%d" % (maxe, T0), "dns %s ip:%s" % (PUBLIC, PUBLIC_IP),
                           "dns %s ip:%s fail=%d" % (FLAKY, PUBLIC_IP, k)]
                    for e in pat:
                        if e == "F":
                            ops.append("call lib=%s host=%s hdr=- gw=ok direct=ok" % (lib, FLAKY))
                        elif e == "f":
                            ops.append("decide host=%s hdr=-" % FLAKY)
                        elif e == "E":
                            ops.append("call lib=%s host=%s hdr=- gw=connerr direct=ok" % (lib, PUBLIC))
                        elif e == "T":
                            ops.append("adv d=4")
                        else:
                            ops.append("adv d=1")
                    emit(nid("k"), ops)
    # every class of every library's exception hierarchy on the gateway leg: enough of them in a row,
    # a call inside the cool-down, a call after it
    for lib in LIBS:
        for cname in sorted(EXC[lib]):
            for maxe in (1, 2, 3):
                ops = ["cfg max=%d cool=2 block=%%n allow=%%n t0=%d" % (maxe, T0), "dns %s ip:%s" % (PUBLIC, PUBLIC_IP)]
                ops += ["call lib=%s host=%s hdr=- gw=exc:%s.%s direct=ok" % (lib, PUBLIC, lib, cname)] * maxe
                ops += ["call lib=%s host=%s hdr=- gw=ok direct=ok" % (lib, PUBLIC), "adv d=16",
                        "call lib=%s host=%s hdr=- gw=ok direct=ok" % (lib, PUBLIC)]
                emit(nid("c"), ops)
    # the event alphabet exhaustively through the aiohttp and the tornado hook as well (shorter)
    for lib in ("aiohttp", "tornado"):
        for maxe in (1, 2, 3):
            for cool in (1, 3):
                for sq in enum_seqs("SEHABT", 3 if tier == "quick" else 5):
                    emit(*seq_case(nid("a"), maxe, cool, sq, lib=lib))
    six = "SEHABT"   # success, gw error by exception, by header, application exception, bypassed destination, clock advance
    if tier == "quick":
        # exhaustive up to length 4 for the 16 settings
        for maxe in (1, 2, 3, 4):
            for cool in (1, 2, 3, 5):
                for s in enum_seqs(six, 4):
                    emit(*seq_case(nid("e"), maxe, cool, s))
    else:
        seqs6 = enum_seqs(six, 6)
        seqs5 = [s for s in seqs6 if len(s) <= 5]
        for maxe in (1, 2, 3, 4):
            for cool in (1, 2, 3, 4, 5):
                for s in (seqs6 if cool in (1, 5) else seqs5):
                    emit(*seq_case(nid("e"), maxe, cool, s))


def read_replay(path):
    cases = []
    with open(path) as f:
        for l in f.read().split("\n"):
            l = l.rstrip("\r")
            if l == "" or l.startswith("#"):
                continue
            w = l.split()
            if len(w) == 2 and w[0] == "case":
                cases.append((w[1], []))
                continue
            if not cases:
                cases.append(("replay0", []))
            cases[-1][1].append(l)
    return cases


def main(argv):
    global REAL
    a = {"-seed": "1", "-tier": "quick", "-out": "", "-budget": "1", "-replay": ""}
    i = 0
    while i < len(argv):
        k = argv[i]
        if k.startswith("--"):
            k = k[1:]
        if k in a and i + 1 < len(argv):
            a[k] = argv[i + 1]
            i += 2
        else:
            sys.stderr.write("unknown argument %s\n" % argv[i])
            return 2
    if not a["-out"]:
        sys.stderr.write("-out required\n")
        return 2
    REAL = load_real()
    out = Out(a["-out"])

    def emit(cid, ops):
        out.case(cid, ops, exec_case(ops, out))
    if a["-replay"]:
        for cid, ops in read_replay(a["-replay"]):
            emit(cid, ops)
    else:
        generate(R(int(a["-seed"])), a["-tier"], max(1, int(a["-budget"])), emit)
    out.extra["python"] = sys.version.split()[0]
    out.extra["source_root"] = SRC
    out.close()
    return 0


if __name__ == "__main__":
    sys.exit(main(sys.argv[1:]))
